import FR.Proofs.C11cSys
/-!
# C11c — conservation of list elements over whole histories with blocked consumers

Property C11 (conservation part): *every pushed element is received by at most one client and is either received or still
in a list.*  `FR/Props/C11s.lean` has the one-step facts; this file has the **history-level** theorem.

## Vocabulary

* `Ev`, `stepEv`, `runHistory` — the events of the system model (`FR/Proofs/History.lean`); `stepEv` resets the per-event
  output `out`, so the ledgers below are accumulated event by event.
* `stored s` — all elements of all lists of all databases of `s` (`FR/Proofs/Conserve.lean`), as a list = multiset.
* `popsOf name reply`, `pushesOf name args reply` (`FR/Proofs/C11cReg.lean`) — the two ledgers of one command, read off the
  request and its reply: the element(s) inside an LPOP / RPOP reply (bulk, or array of bulks for the counted form) and
  inside the `[key, element]` reply of BLPOP / BRPOP; the values `v₁ … vₙ` of `LPUSH/RPUSH/LPUSHX/RPUSHX key v₁ … vₙ` when
  the reply is a non-zero integer.  RPOPLPUSH / LMOVE / BRPOPLPUSH contribute to neither (the moved element stays stored).
  The reply of EXEC is read against the queue of the transaction (`popsReq`, `pushesReq`).
* `deliveredEv s e`, `pushedEv s e` — the ledgers of one event: all replies emitted by the event; a wake-up's reply
  `[key, element]` delivers `element` (`popElem`), the bulk reply of a woken BRPOPLPUSH delivers nothing.
* `deliveredH s evs`, `pushedH s evs`, `deliveredToH c s evs` — the ledgers of a history started in `s`.
* `Legal s e` / `LegalFrom s evs` — **which events a history may contain**:
  - `.request mode c fields clocks picks` with `fields = name :: args`, `name` (case-insensitively) one of
    LPUSH RPUSH LPUSHX RPUSHX LPOP RPOP RPOPLPUSH LMOVE LLEN LRANGE BLPOP BRPOP BRPOPLPUSH MULTI EXEC DISCARD, any arguments
    (also ill-formed ones), any `mode` (both front-ends, parking or not), provided the socket of `c` is not closed;
    inside MULTI the commands are queued and run by EXEC;
  - `.wake c clocks`, `.timeout c` (of any connection, parked or not), `.open c`, `.gc c`, `.version v`, `.conn up`;
  - `.close c` provided `c` is not parked (the exclusion is necessary *in the model*: `conservation_false_with_close`).
  Excluded: `.send` (raw bytes through the parser), `.awake` / `.atimeout` (asyncio re-try task, which re-enters the
  parser loop), and every command outside the family — in particular the destructive ones DEL, LTRIM, LREM, LSET, FLUSHDB,
  SET …, and everything that gives a key a TTL (EXPIRE …): with those, elements leave the lists without being delivered.
  `plainEv` is a purely syntactic sufficient condition (no `.close` at all): `legalFrom_of_plain`.

## Results

* `conservation` — for every legal history from the initial state and every element `x`:
  `count x stored + count x delivered = count x pushed`;  `conservation_perm` — the same as a multiset equation;
  `conservation_from` — from any state satisfying the invariant `LInv`.
* `delivered_or_stored`, `at_most_once`, `at_most_once_two` — consequences.
* `conservation_false_with_close` — the statement without the side condition on `.close` is false of the model.
-/
namespace FR.Props.C11c
open FR FR.M FR.Conserve FR.C11c

/-! ## histories -/

/-- every event of the history is legal in the state it occurs in -/
def LegalFrom : Sys → List Ev → Prop
  | _, [] => True
  | s, e :: es => Legal s e ∧ LegalFrom (stepEv s e) es

/-- the elements delivered to clients during the history `evs` started in `s` -/
def deliveredH : Sys → List Ev → List Bytes
  | _, [] => []
  | s, e :: es => deliveredEv s e ++ deliveredH (stepEv s e) es

/-- … by replies addressed to connection `c` -/
def deliveredToH (c : Nat) : Sys → List Ev → List Bytes
  | _, [] => []
  | s, e :: es => deliveredToEv c s e ++ deliveredToH c (stepEv s e) es

/-- the elements pushed during the history -/
def pushedH : Sys → List Ev → List Bytes
  | _, [] => []
  | s, e :: es => pushedEv s e ++ pushedH (stepEv s e) es

/-! ## conservation -/

/-- **Conservation from any state satisfying the invariant.** -/
theorem conservation_from (s : Sys) (evs : List Ev) (h : LInv s) (hl : LegalFrom s evs) :
    LInv (evs.foldl stepEv s) ∧
    ∀ x, (stored (evs.foldl stepEv s)).count x + (deliveredH s evs).count x = (stored s).count x + (pushedH s evs).count x := by
  induction evs generalizing s with
  | nil => exact ⟨h, fun x => rfl⟩
  | cons e es ih =>
    obtain ⟨h1, h2, _⟩ := stepEv_ok s e h hl.1
    obtain ⟨h3, h4⟩ := ih (stepEv s e) h1 hl.2
    refine ⟨h3, fun x => ?_⟩
    have a := h2 x
    have b := h4 x
    simp only [deliveredH, pushedH, List.count_append, List.foldl_cons]
    omega

theorem stored_init : stored ({} : Sys) = [] := by decide

/-- **Conservation (C11), history level.**  For every legal history from the initial state (empty databases) and every
element `x`: the number of occurrences of `x` still stored in lists plus the number of times `x` was delivered to a client
equals the number of times `x` was pushed. -/
theorem conservation (evs : List Ev) (hl : LegalFrom {} evs) (x : Bytes) :
    (stored (runHistory evs)).count x + (deliveredH {} evs).count x = (pushedH {} evs).count x := by
  have := (conservation_from {} evs linv_init hl).2 x
  rw [stored_init] at this
  simpa [runHistory] using this

/-- … as an equation between multisets: `stored + delivered = pushed` -/
theorem conservation_perm (evs : List Ev) (hl : LegalFrom {} evs) :
    (stored (runHistory evs) ++ deliveredH {} evs).Perm (pushedH {} evs) := by
  rw [List.perm_iff_count]
  intro x
  rw [List.count_append]
  exact conservation evs hl x

/-- every reachable state of a legal history satisfies the invariant (in particular: no key has a TTL, no list is empty) -/
theorem invariant (evs : List Ev) (hl : LegalFrom {} evs) : LInv (runHistory evs) :=
  (conservation_from {} evs linv_init hl).1

/-- **Delivered or stored.**  An element is delivered no more often than it was pushed, stored no more often than it was
pushed, and what was pushed but not delivered is still stored; nothing is delivered or stored that was never pushed. -/
theorem delivered_or_stored (evs : List Ev) (hl : LegalFrom {} evs) (x : Bytes) :
    (deliveredH {} evs).count x ≤ (pushedH {} evs).count x ∧
    (stored (runHistory evs)).count x = (pushedH {} evs).count x - (deliveredH {} evs).count x ∧
    (x ∉ pushedH {} evs → x ∉ deliveredH {} evs ∧ x ∉ stored (runHistory evs)) := by
  have h := conservation evs hl x
  refine ⟨by omega, by omega, fun hx => ?_⟩
  rw [← List.count_eq_zero] at hx ⊢
  rw [← List.count_eq_zero]
  omega

/-! ## at most once -/

/-- `Σ_{c ∈ cs} f c` -/
def total (f : Nat → Nat) : List Nat → Nat
  | [] => 0
  | c :: cs => f c + total f cs

theorem total_zero (f : Nat → Nat) (cs : List Nat) (h : ∀ c ∈ cs, f c = 0) : total f cs = 0 := by
  induction cs with
  | nil => rfl
  | cons c cs ih =>
    simp only [total, h c (by simp), Nat.zero_add]
    exact ih (fun c' hc' => h c' (by simp [hc']))

theorem total_add (f g : Nat → Nat) (cs : List Nat) : total (fun c => f c + g c) cs = total f cs + total g cs := by
  induction cs with
  | nil => rfl
  | cons c cs ih => simp only [total, ih]; omega

theorem total_congr {f g : Nat → Nat} (cs : List Nat) (h : ∀ c, f c = g c) : total f cs = total g cs := by
  have : f = g := funext h
  rw [this]

theorem total_ite_le (cs : List Nat) (hnd : cs.Nodup) (a : Nat) (n : Nat) :
    total (fun c => if (a == c) = true then n else 0) cs ≤ n := by
  induction cs with
  | nil => exact Nat.zero_le _
  | cons c cs ih =>
    rw [List.nodup_cons] at hnd
    simp only [total]
    by_cases hac : a = c
    · subst hac
      have : total (fun c => if (a == c) = true then n else 0) cs = 0 := by
        apply total_zero
        intro c' hc'
        have : a ≠ c' := fun e => hnd.1 (e ▸ hc')
        simp [this]
      rw [this]
      simp
    · have : (a == c) = false := by simpa using hac
      simp only [this, Bool.false_eq_true, if_false, Nat.zero_add]
      exact ih hnd.2

/-- the replies addressed to distinct connections are disjoint parts of the output -/
theorem total_filter_le (out : List (Nat × Reply)) (f : Nat × Reply → List Bytes) (cs : List Nat) (hnd : cs.Nodup) (x : Bytes) :
    total (fun c => ((out.filter fun p => p.1 == c).flatMap f).count x) cs ≤ (out.flatMap f).count x := by
  induction out with
  | nil =>
    simp only [List.filter_nil, List.flatMap_nil, List.count_nil]
    exact Nat.le_of_eq (total_zero _ cs (fun _ _ => rfl))
  | cons p rest ih =>
    have hstep : ∀ c, ((List.filter (fun q => q.1 == c) (p :: rest)).flatMap f).count x =
        (if (p.1 == c) = true then (f p).count x else 0) + ((rest.filter fun q => q.1 == c).flatMap f).count x := by
      intro c
      by_cases hpc : (p.1 == c) = true
      · simp [hpc, List.count_append]
      · simp [hpc]
    rw [total_congr cs hstep, total_add]
    simp only [List.flatMap_cons, List.count_append]
    have := total_ite_le cs hnd p.1 ((f p).count x)
    omega

theorem total_deliveredToEv_le (s : Sys) (e : Ev) (cs : List Nat) (hnd : cs.Nodup) (x : Bytes) :
    total (fun c => (deliveredToEv c s e).count x) cs ≤ (deliveredEv s e).count x := by
  have hzero : total (fun _ => ([] : List Bytes).count x) cs = 0 := total_zero _ cs (fun _ _ => rfl)
  cases e with
  | request mode c fields clocks picks =>
    cases fields with
    | nil => simp only [deliveredToEv, deliveredEv]; rw [hzero]; exact Nat.le_refl _
    | cons nameB args =>
      simp only [deliveredToEv, deliveredEv]
      cases lookupSig nameB with
      | none => simp only; rw [hzero]; exact Nat.le_refl _
      | some sig => exact total_filter_le _ _ cs hnd x
  | wake c clocks => exact total_filter_le _ _ cs hnd x
  | _ => simp only [deliveredToEv, deliveredEv]; rw [hzero]; exact Nat.le_refl _

theorem total_deliveredToH_le (s : Sys) (evs : List Ev) (cs : List Nat) (hnd : cs.Nodup) (x : Bytes) :
    total (fun c => (deliveredToH c s evs).count x) cs ≤ (deliveredH s evs).count x := by
  induction evs generalizing s with
  | nil =>
    simp only [deliveredToH, deliveredH, List.count_nil]
    exact Nat.le_of_eq (total_zero _ cs (fun _ _ => rfl))
  | cons e es ih =>
    have : ∀ c, (deliveredToH c s (e :: es)).count x =
        (deliveredToEv c s e).count x + (deliveredToH c (stepEv s e) es).count x := by
      intro c
      simp only [deliveredToH, List.count_append]
    rw [total_congr cs this, total_add]
    simp only [deliveredH, List.count_append]
    have a := total_deliveredToEv_le s e cs hnd x
    have b := ih (stepEv s e)
    omega

/-- **At most once.**  For pairwise different connections `cs`: the numbers of times `x` was delivered to each of them
(`total … cs` is their sum), plus the number of occurrences still stored, do not exceed the number of times `x` was
pushed — no occurrence of a pushed element is handed to two clients, or handed to a client and kept. -/
theorem at_most_once (evs : List Ev) (hl : LegalFrom {} evs) (cs : List Nat) (hnd : cs.Nodup) (x : Bytes) :
    total (fun c => (deliveredToH c {} evs).count x) cs + (stored (runHistory evs)).count x ≤ (pushedH {} evs).count x := by
  have a := total_deliveredToH_le {} evs cs hnd x
  have b := conservation evs hl x
  omega

/-- two different connections: an element pushed once is delivered to at most one of them -/
theorem at_most_once_two (evs : List Ev) (hl : LegalFrom {} evs) (c1 c2 : Nat) (hne : c1 ≠ c2) (x : Bytes) :
    (deliveredToH c1 {} evs).count x + (deliveredToH c2 {} evs).count x ≤ (pushedH {} evs).count x := by
  have := at_most_once evs hl [c1, c2] (by simp [hne]) x
  simp only [total] at this
  omega

/-! ## a syntactic sufficient condition for legality -/

/-- the request names a command of the family (or MULTI / EXEC / DISCARD) -/
def famReqB (fields : List Bytes) : Bool :=
  match fields with
  | nameB :: _ =>
    match lookupSig nameB with
    | some sig => famNames.contains sig.name || txNames.contains sig.name
    | none => false
  | [] => false

/-- family requests, wake-ups, time-outs, new connections, gc, version / outage switches — and no `close` at all -/
def plainEv : Ev → Bool
  | .request _ _ fields _ _ => famReqB fields
  | .wake _ _ => true
  | .timeout _ => true
  | .open _ => true
  | .gc _ => true
  | .version _ => true
  | .conn _ => true
  | _ => false

theorem familyReq_of_famReqB {fields : List Bytes} (h : famReqB fields = true) : FamilyReq fields := by
  unfold famReqB at h
  split at h
  · rename_i nameB args
    split at h
    · rename_i sig hsig
      refine ⟨nameB, args, sig, rfl, hsig, ?_⟩
      simp only [Bool.or_eq_true, List.contains_iff_mem] at h
      exact h
    · cases h
  · cases h

theorem legalFrom_of_plain_from (s : Sys) (evs : List Ev) (h : LInv s) (hopen : ∀ c, (s.conn c).closed = false)
    (hp : evs.all plainEv = true) : LegalFrom s evs := by
  induction evs generalizing s with
  | nil => trivial
  | cons e es ih =>
    simp only [List.all_cons, Bool.and_eq_true] at hp
    have hl : Legal s e := by
      cases e with
      | request mode c' fields clocks picks => exact ⟨familyReq_of_famReqB hp.1, hopen c'⟩
      | close c => exact absurd hp.1 (by simp [plainEv])
      | send mode c data clocks picks => exact absurd hp.1 (by simp [plainEv])
      | awake mode c clocks picks => exact absurd hp.1 (by simp [plainEv])
      | atimeout mode c clocks picks => exact absurd hp.1 (by simp [plainEv])
      | _ => trivial
    obtain ⟨h1, _, h3⟩ := stepEv_ok s e h hl
    refine ⟨hl, ih _ h1 (h3 ?_ hopen) hp.2⟩
    intro c hc
    subst hc
    exact absurd hp.1 (by simp [plainEv])

/-- a history made of family requests, wake-ups, time-outs, `open`, `gc`, `version`, `conn` events is legal -/
theorem legalFrom_of_plain (evs : List Ev) (hp : evs.all plainEv = true) : LegalFrom {} evs :=
  legalFrom_of_plain_from {} evs linv_init (fun _ => rfl) hp

/-- conservation for syntactically plain histories -/
theorem conservation_plain (evs : List Ev) (hp : evs.all plainEv = true) (x : Bytes) :
    (stored (runHistory evs)).count x + (deliveredH {} evs).count x = (pushedH {} evs).count x :=
  conservation evs (legalFrom_of_plain evs hp) x

/-! ## non-vacuity: two parked consumers, a push, a wake-up, a time-out, a transaction -/

def pk : Mode := { park := true }

/-- consumers 1 and 2 park in BLPOP on `k` (2 with a time-out of 1 s); producer 3 pushes `a`, `b`; 1 is woken and
served `a`; 2 times out (nil), `b` stays stored; 3 pops `b` with LPOP; then a transaction of 3: RPUSH `c`, `d`, BLPOP
(never blocks inside MULTI: served `c`), RPOPLPUSH `k` → `m` (moves `d`, which stays stored), run by EXEC -/
def hist : List Ev :=
  [.open 1, .open 2, .open 3,
   .request pk 1 [strBytes "BLPOP", [107], [48]] [10] [],
   .request pk 2 [strBytes "BLPOP", [107], [49]] [20, 21, 22] [],
   .request pk 3 [strBytes "RPUSH", [107], [97], [98]] [30] [],
   .wake 1 [],
   .timeout 2,
   .request pk 3 [strBytes "LPOP", [107]] [40] [],
   .request pk 3 [strBytes "MULTI"] [50] [],
   .request pk 3 [strBytes "RPUSH", [107], [99], [100]] [51] [],
   .request pk 3 [strBytes "BLPOP", [107], [48]] [52] [],
   .request pk 3 [strBytes "RPOPLPUSH", [107], [109]] [53] [],
   .request pk 3 [strBytes "EXEC"] [54] []]

/-- the history is plain, hence legal: the hypotheses of `conservation`, `at_most_once` are met -/
theorem hist_plain : hist.all plainEv = true := by decide +kernel

theorem hist_legal : LegalFrom {} hist := legalFrom_of_plain hist hist_plain

/-- both consumers are parked after the fifth event; the push flags both -/
example : (runHistory (hist.take 5)).srv.conns.map (fun x => (x.id, x.parked.map (·.woken)))
      = [(1, some false), (2, some false), (3, none)] ∧
    (runHistory (hist.take 6)).srv.conns.map (fun x => (x.id, x.parked.map (·.woken)))
      = [(1, some true), (2, some true), (3, none)] ∧
    stored (runHistory (hist.take 6)) = [[97], [98]] := by decide +kernel

/-- the wake-up serves 1 with `a`, the time-out answers nil to 2 and un-parks it -/
example : (stepEv (runHistory (hist.take 6)) (.wake 1 [])).out.map (fun p => (p.1, popElem p.2)) = [(1, [[97]])] ∧
    (stepEv (runHistory (hist.take 7)) (.timeout 2)).out.map (fun p => (p.1, match p.2 with | .nil => true | _ => false))
      = [(2, true)] ∧
    (runHistory (hist.take 8)).srv.conns.map (fun x => (x.id, x.parked.isSome)) = [(1, false), (2, false), (3, false)] := by
  decide +kernel

/-- the ledgers of the whole history: `d` is still stored (under `m`), `a b c` were delivered, `a b c d` were pushed -/
example : stored (runHistory hist) = [[100]] ∧ deliveredH {} hist = [[97], [98], [99]] ∧
    pushedH {} hist = [[97], [98], [99], [100]] ∧
    deliveredToH 1 {} hist = [[97]] ∧ deliveredToH 2 {} hist = [] ∧ deliveredToH 3 {} hist = [[98], [99]] := by
  decide +kernel

/-- the instance of `conservation` / `at_most_once_two` for this history -/
example (x : Bytes) : (stored (runHistory hist)).count x + (deliveredH {} hist).count x = (pushedH {} hist).count x :=
  conservation hist hist_legal x

example (x : Bytes) : (deliveredToH 1 {} hist).count x + (deliveredToH 3 {} hist).count x ≤ (pushedH {} hist).count x :=
  at_most_once_two hist hist_legal 1 3 (by decide) x

example (x : Bytes) : total (fun c => (deliveredToH c {} hist).count x) [1, 2, 3] + (stored (runHistory hist)).count x
    ≤ (pushedH {} hist).count x :=
  at_most_once hist hist_legal [1, 2, 3] (by decide) x

example : (deliveredH {} hist).count [97] ≤ (pushedH {} hist).count [97] ∧
    (stored (runHistory hist)).count [100] = (pushedH {} hist).count [100] - (deliveredH {} hist).count [100] :=
  ⟨(delivered_or_stored hist hist_legal [97]).1, (delivered_or_stored hist hist_legal [100]).2.1⟩

example : (stored (runHistory hist) ++ deliveredH {} hist).Perm (pushedH {} hist) := conservation_perm hist hist_legal

example (x : Bytes) : (stored (runHistory hist)).count x + (deliveredH {} hist).count x = (pushedH {} hist).count x :=
  conservation_plain hist hist_plain x

/-- `conservation_from`: a non-initial state satisfying `LInv` (it is reachable), and a legal continuation -/
example : LInv (runHistory (hist.take 6)) ∧ LegalFrom (runHistory (hist.take 6)) (hist.drop 6) := by
  have h6 : LegalFrom {} (hist.take 6) := legalFrom_of_plain _ (by decide +kernel)
  refine ⟨invariant _ h6, ?_⟩
  have hopen : ∀ c, ((runHistory (hist.take 6)).conn c).closed = false := by
    intro c
    rcases (runHistory (hist.take 6)).conn_mem_or_default c with hm | he
    · have hall : (runHistory (hist.take 6)).srv.conns.all (fun x => x.closed == false) = true := by decide +kernel
      simpa using List.all_eq_true.1 hall _ hm
    · rw [he]
  exact legalFrom_of_plain_from _ _ (invariant _ h6) hopen (by decide +kernel)

/-- a legal `close`: connection 2 closes its socket after it was un-parked -/
example : LegalFrom {} (hist.take 8 ++ [.close 2, .request pk 3 [strBytes "LLEN", [107]] [60] []]) := by
  have h8 : LegalFrom {} (hist.take 8) := legalFrom_of_plain _ (by decide +kernel)
  have happ : ∀ (s : Sys) (a b : List Ev), LegalFrom s a → LegalFrom (a.foldl stepEv s) b → LegalFrom s (a ++ b) := by
    intro s a
    induction a generalizing s with
    | nil => intro b _ hb; exact hb
    | cons e es ih => intro b ha hb; exact ⟨ha.1, ih _ b ha.2 hb⟩
  refine happ _ _ _ h8 ⟨?_, ⟨familyReq_of_famReqB (by decide +kernel), ?_⟩, trivial⟩
  · show (Sys.conn _ 2).parked = none
    decide +kernel
  · show (Sys.conn _ 3).closed = false
    decide +kernel

/-! ## the side condition on `close` is necessary (in the model)

`.close c` of a *parked* connection: the record stays parked with `closed = true`; the push wakes it, the pass takes the
element out of the list and `emit` drops the reply.  The element is pushed, not stored, not delivered.

**This is a property of the model, not of the code**: replayed on the Python code (a thread blocked in `BLPOP k 0`, its
`FakeSocket.close()` called from the main thread, then `RPUSH k a` by another client) the blocked thread dies in
`_bpop_pass` with `AttributeError: 'NoneType' object has no attribute 'get'` (`close()` sets `self._db = None`) and `a`
stays in the list.  Real Redis frees a blocked client that disconnects; the element stays in the list as well. -/

def histC : List Ev :=
  [.open 1, .open 2,
   .request pk 1 [strBytes "BLPOP", [107], [48]] [10] [],
   .close 1,
   .request pk 2 [strBytes "RPUSH", [107], [97]] [30] [],
   .wake 1 []]

/-- every event of `histC` is a family request, a wake-up, an `open` — or the `close` of a parked connection -/
theorem histC_events : histC.all (fun e => plainEv e || (match e with | .close _ => true | _ => false)) = true := by
  decide +kernel

/-- the `close` is the one illegal event: connection 1 is parked when its socket is closed -/
theorem histC_close_illegal : LegalFrom {} (histC.take 3) ∧ ¬ Legal (runHistory (histC.take 3)) (.close 1) := by
  refine ⟨legalFrom_of_plain _ (by decide +kernel), ?_⟩
  intro h
  have h' : ((runHistory (histC.take 3)).conn 1).parked = none := h
  have : ((runHistory (histC.take 3)).conn 1).parked.isSome = true := by decide +kernel
  rw [h'] at this; cases this

/-- **Conservation is false when a parked connection may be closed**: `a` was pushed, is not stored and was not delivered. -/
theorem conservation_false_with_close :
    ¬ ∀ evs : List Ev, evs.all (fun e => plainEv e || (match e with | .close _ => true | _ => false)) = true →
      ∀ x, (stored (runHistory evs)).count x + (deliveredH {} evs).count x = (pushedH {} evs).count x := by
  intro h
  have h1 := h histC histC_events [97]
  have h2 : stored (runHistory histC) = [] ∧ deliveredH {} histC = [] ∧ pushedH {} histC = [[97]] := by decide +kernel
  rw [h2.1, h2.2.1, h2.2.2] at h1
  simp at h1

end FR.Props.C11c
