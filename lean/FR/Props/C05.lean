import FR.Proofs.System
/-!
# C05 — MULTI / EXEC / DISCARD / WATCH

`s.conn c` abbreviates `(M.getConn c s).1`; `s.HasConn c` says a connection with id `c` is registered in
`s.srv.conns` (for an unregistered id `getConn` returns a default record and `modifyConn` does nothing).
`Conn.normal x` is `x.tx = none ∧ x.watches = [] ∧ x.watchNotified = false`.
-/
namespace FR.C05
open FR FR.M

/-! ## 1. MULTI -/

theorem multi_opens (s : Sys) (c : Nat) (cis : List CI) (hc : s.HasConn c) (h : (s.conn c).tx = none) :
    (multiCmd c cis s).1 = .ok (some .ok, cis) ∧
    ((multiCmd c cis s).2.conn c).tx = some [] ∧
    ((multiCmd c cis s).2.conn c).txFailed = false ∧
    (multiCmd c cis s).2.srv.dbs = s.srv.dbs := by
  rw [multiCmd_run_none cis h]
  refine ⟨rfl, ?_, ?_, rfl⟩ <;>
  · rw [Sys.conn_updConn_same (fun x => { x with tx := some [], txFailed := false }) hc (fun _ => rfl)]

theorem multi_nested_error (s : Sys) (c : Nat) (cis : List CI) (h : (s.conn c).tx.isSome) :
    multiCmd c cis s = (.error Msgs.MULTI_NESTED_MSG, s) :=
  multiCmd_run_some cis h

example : ∃ s : Sys, s.HasConn 7 ∧ (s.conn 7).tx = none ∧ (multiCmd 7 [] s).1 = .ok (some .ok, []) :=
  ⟨{ srv := { conns := [{ id := 7 }] } }, ⟨_, List.mem_singleton.2 rfl, rfl⟩, rfl, rfl⟩

/-! ## 2. a queued command has no effect on the data -/

/-- the whole event is: clock refresh, append to the queue, reply `QUEUED` -/
theorem queued_no_effect_eq (s : Sys) (mode : Mode) (c : Nat) (nameB : Bytes) (args : List Bytes)
    (n : String) (sig : Sig) (q : List (String × List Bytes))
    (hclosed : s.srv.closedSockets = [])
    (hname : commandName nameB = some n) (hus : n.startsWith "_" = false)
    (hfind : SigTable.find n = some sig) (harity : sig.checkArity args.length = true)
    (hnq : sig.name ∉ SigTable.notQueued)
    (hnm : sig.name ∉ SigTable.notInMulti)
    (htx : (s.conn c).tx = some q) :
    processCommand mode c (nameB :: args) s = (do
      let now ← nextClock
      modify fun s => { s with srv := { s.srv with time := now } }
      modifyConn c fun x => { x with tx := x.tx.map (· ++ [(sig.name, args)]) }
      emit c .queued : M Unit) s :=
  processCommand_queued mode c nameB args hclosed hname hus hfind harity (by simpa using hnq)
    (by simpa using hnm) htx

theorem queued_no_effect (s : Sys) (mode : Mode) (c : Nat) (nameB : Bytes) (args : List Bytes)
    (n : String) (sig : Sig) (q : List (String × List Bytes))
    (hclosed : s.srv.closedSockets = [])
    (hname : commandName nameB = some n) (hus : n.startsWith "_" = false)
    (hfind : SigTable.find n = some sig) (harity : sig.checkArity args.length = true)
    (hnq : sig.name ∉ SigTable.notQueued)
    (hnm : sig.name ∉ SigTable.notInMulti)
    (htx : (s.conn c).tx = some q) :
    let s' := (processCommand mode c (nameB :: args) s).2
    s'.out = (if (s.conn c).closed then s.out else (c, Reply.queued) :: s.out) ∧
    (s'.conn c).tx = some (q ++ [(sig.name, args)]) ∧
    s'.srv.dbs = s.srv.dbs ∧ s'.srv.subs = s.srv.subs ∧ s'.srv.psubs = s.srv.psubs := by
  intro s'
  have hs' : s' = (s.refresh.updConn c fun x => { x with tx := x.tx.map (· ++ [(sig.name, args)]) }).emitS c .queued := by
    show (processCommand mode c (nameB :: args) s).2 = _
    rw [processCommand_queued_state mode c nameB args hclosed hname hus hfind harity (by simpa using hnq)
      (by simpa using hnm) htx]
  have hc : s.refresh.HasConn c := (Sys.refresh_hasConn s c).2 (Sys.hasConn_of_tx (by rw [htx]; rfl))
  refine ⟨?_, ?_, ?_, ?_, ?_⟩
  · rw [hs', Sys.emitS_out, Sys.updConn_out, Sys.refresh_out,
      Sys.conn_updConn_proj _ c c (fun x => { x with tx := x.tx.map (· ++ [(sig.name, args)]) }) Conn.closed
        (fun _ => rfl) (fun _ => rfl), Sys.refresh_conn]
  · rw [hs', Sys.emitS_conn,
      Sys.conn_updConn_same (fun x => { x with tx := x.tx.map (· ++ [(sig.name, args)]) }) hc (fun _ => rfl),
      Sys.refresh_conn]
    simp only [htx, Option.map_some]
  · rw [hs', Sys.emitS_srv, Sys.updConn_dbs, Sys.refresh_dbs]
  · rw [hs', Sys.emitS_srv, Sys.updConn_subs, Sys.refresh_subs]
  · rw [hs', Sys.emitS_srv, Sys.updConn_psubs, Sys.refresh_psubs]

example : ∃ (s : Sys) (sig : Sig), s.srv.closedSockets = [] ∧ commandName [71, 69, 84] = some "get" ∧
    ("get".startsWith "_") = false ∧ SigTable.find "get" = some sig ∧ sig.checkArity 1 = true ∧
    sig.name ∉ SigTable.notQueued ∧ sig.name ∉ SigTable.notInMulti ∧ (s.conn 7).tx = some [] :=
  ⟨{ srv := { conns := [{ id := 7, tx := some [] }] } }, _, rfl, by simp [commandName, bytesStr, lowerByte],
    by simp, rfl, by decide, by decide, by decide, rfl⟩

/-! ## 2b. (P)SUBSCRIBE / (P)UNSUBSCRIBE inside MULTI are refused, not queued -/

/-- the whole event is: clock refresh, `txFailed := true`, the error reply; nothing is queued -/
theorem refused_in_multi_eq (s : Sys) (mode : Mode) (c : Nat) (nameB : Bytes) (args : List Bytes)
    (n : String) (sig : Sig) (q : List (String × List Bytes))
    (hclosed : s.srv.closedSockets = [])
    (hname : commandName nameB = some n) (hus : n.startsWith "_" = false)
    (hfind : SigTable.find n = some sig) (harity : sig.checkArity args.length = true)
    (hnq : sig.name ∉ SigTable.notQueued)
    (hnm : sig.name ∈ SigTable.notInMulti)
    (htx : (s.conn c).tx = some q) :
    processCommand mode c (nameB :: args) s = (do
      let now ← nextClock
      modify fun s => { s with srv := { s.srv with time := now } }
      modifyConn c fun x => { x with txFailed := true }
      emit c (.err (strBytes Msgs.COMMAND_IN_MULTI_MSG)) : M Unit) s :=
  processCommand_refused mode c nameB args hclosed hname hus hfind harity (by simpa using hnq)
    (by simpa using hnm) htx

theorem refused_in_multi (s : Sys) (mode : Mode) (c : Nat) (nameB : Bytes) (args : List Bytes)
    (n : String) (sig : Sig) (q : List (String × List Bytes))
    (hclosed : s.srv.closedSockets = [])
    (hname : commandName nameB = some n) (hus : n.startsWith "_" = false)
    (hfind : SigTable.find n = some sig) (harity : sig.checkArity args.length = true)
    (hnq : sig.name ∉ SigTable.notQueued)
    (hnm : sig.name ∈ SigTable.notInMulti)
    (htx : (s.conn c).tx = some q) :
    let s' := (processCommand mode c (nameB :: args) s).2
    s'.out = (if (s.conn c).closed then s.out
              else (c, Reply.err (strBytes Msgs.COMMAND_IN_MULTI_MSG)) :: s.out) ∧
    (s'.conn c).tx = some q ∧ (s'.conn c).txFailed = true ∧
    s'.srv.dbs = s.srv.dbs ∧ s'.srv.subs = s.srv.subs ∧ s'.srv.psubs = s.srv.psubs := by
  intro s'
  have hs' : s' = (s.refresh.updConn c fun x => { x with txFailed := true }).emitS c
      (.err (strBytes Msgs.COMMAND_IN_MULTI_MSG)) := by
    show (processCommand mode c (nameB :: args) s).2 = _
    rw [processCommand_refused_state mode c nameB args hclosed hname hus hfind harity (by simpa using hnq)
      (by simpa using hnm) htx]
  have hc : s.refresh.HasConn c := (Sys.refresh_hasConn s c).2 (Sys.hasConn_of_tx (by rw [htx]; rfl))
  refine ⟨?_, ?_, ?_, ?_, ?_, ?_⟩
  · rw [hs', Sys.emitS_out, Sys.updConn_out, Sys.refresh_out,
      Sys.conn_updConn_proj _ c c (fun x => { x with txFailed := true }) Conn.closed
        (fun _ => rfl) (fun _ => rfl), Sys.refresh_conn]
  · rw [hs', Sys.emitS_conn,
      Sys.conn_updConn_same (fun x => { x with txFailed := true }) hc (fun _ => rfl),
      Sys.refresh_conn]
    exact htx
  · rw [hs', Sys.emitS_conn,
      Sys.conn_updConn_same (fun x => { x with txFailed := true }) hc (fun _ => rfl)]
  · rw [hs', Sys.emitS_srv, Sys.updConn_dbs, Sys.refresh_dbs]
  · rw [hs', Sys.emitS_srv, Sys.updConn_subs, Sys.refresh_subs]
  · rw [hs', Sys.emitS_srv, Sys.updConn_psubs, Sys.refresh_psubs]

example : ∃ (s : Sys) (sig : Sig), s.srv.closedSockets = [] ∧
    commandName [83, 85, 66, 83, 67, 82, 73, 66, 69] = some "subscribe" ∧
    ("subscribe".startsWith "_") = false ∧ SigTable.find "subscribe" = some sig ∧ sig.checkArity 1 = true ∧
    sig.name ∉ SigTable.notQueued ∧ sig.name ∈ SigTable.notInMulti ∧ (s.conn 7).tx = some [] :=
  ⟨{ srv := { conns := [{ id := 7, tx := some [] }] } }, _, rfl, by simp [commandName, bytesStr, lowerByte],
    by simp, rfl, by decide, by decide, by decide, rfl⟩

/-! ## 3. EXEC runs the queue sequentially -/

theorem exec_eq_sequential (s : Sys) (inner : Inner) (c : Nat) (cis : List CI) (q : List (String × List Bytes))
    (h : (s.conn c).tx = some q) (hf : (s.conn c).txFailed = false) (hw : (s.conn c).watchNotified = false) :
    execCmd inner c cis s = (do
      modifyConn c fun x => { x with tx := none, txFailed := false }
      clearWatches c
      let results ← runQueue inner c q
      if results.any Option.isNone then
        modify fun s => { s with crashed := some "AssertionError" }
        return .ok (none, cis)
      else okR (.arr (results.map fun r => r.getD .nil)) cis : M SpecialOut) s :=
  execCmd_eq_sequential inner cis h hf hw

/-- when every inner command answered, the reply is the array of the inner replies and the state is the
one the sequential run of the queue leaves -/
theorem exec_eq_sequential_reply (s : Sys) (inner : Inner) (c : Nat) (cis : List CI) (q : List (String × List Bytes))
    (h : (s.conn c).tx = some q) (hf : (s.conn c).txFailed = false) (hw : (s.conn c).watchNotified = false)
    (hall : ((do
        modifyConn c fun x => { x with tx := none, txFailed := false }
        clearWatches c
        runQueue inner c q : M (List (Option Reply))) s).1.any Option.isNone = false) :
    execCmd inner c cis s =
      let r := (do
        modifyConn c fun x => { x with tx := none, txFailed := false }
        clearWatches c
        runQueue inner c q : M (List (Option Reply))) s
      (.ok (some (.arr (r.1.map fun x => x.getD .nil)), cis), r.2) := by
  rw [execCmd_eq_sequential inner cis h hf hw]
  simp only [bind, StateT.bind, modifyConn_run, clearWatches_run] at hall ⊢
  revert hall
  generalize runQueue inner c q _ = r
  obtain ⟨r1, r2⟩ := r
  intro hall
  simp only at hall
  simp only [hall, Bool.false_eq_true, if_false]
  rfl

/-- `runQueue` is a left-to-right fold -/
theorem runQueue_step (inner : Inner) (c : Nat) (fname : String) (fargs : List Bytes)
    (rest : List (String × List Bytes)) :
    runQueue inner c ((fname, fargs) :: rest) = (do
      let r ← (match SigTable.find fname with
        | none => do fault "exec: unknown queued command"; pure none
        | some sig => do
          modifyConn c fun x => { x with inTx := true }
          let r ← inner sig fargs
          modifyConn c fun x => { x with inTx := false }
          pure r : M (Option Reply))
      let rs ← runQueue inner c rest
      pure (r :: rs)) :=
  runQueue_cons inner c (fname, fargs) rest

theorem runQueue_nil (inner : Inner) (c : Nat) : runQueue inner c [] = pure [] := rfl

theorem runQueue_append (inner : Inner) (c : Nat) (q1 q2 : List (String × List Bytes)) :
    runQueue inner c (q1 ++ q2) = (do
      let r1 ← runQueue inner c q1
      let r2 ← runQueue inner c q2
      pure (r1 ++ r2)) :=
  FR.runQueue_append inner c q1 q2

example : ∃ s : Sys, (s.conn 7).tx = some [("ping", [])] ∧ (s.conn 7).txFailed = false ∧
    (s.conn 7).watchNotified = false :=
  ⟨{ srv := { conns := [{ id := 7, tx := some [("ping", [])] }] } }, rfl, rfl, rfl⟩

/-! ## 4. the commands inside EXEC are run by the same runner as outside -/

theorem runInner_eq_runCommand (mode : Mode) (c : Nat) (sig : Sig) (raw : List Bytes) (h : sig.name ≠ "exec") :
    runInner mode c sig raw = runCommand mode c sig raw false :=
  runInner_eq_runCommand' mode c sig raw h

example : ∃ sig : Sig, SigTable.find "get" = some sig ∧ sig.name ≠ "exec" := ⟨_, rfl, by decide⟩

/-! ## 5. error and abort paths -/

theorem exec_abort_on_queue_error (s : Sys) (inner : Inner) (c : Nat) (cis : List CI)
    (q : List (String × List Bytes)) (h : (s.conn c).tx = some q) (hf : (s.conn c).txFailed = true) :
    (execCmd inner c cis s).1 = .error Msgs.EXECABORT_MSG ∧
    ((execCmd inner c cis s).2.conn c).normal ∧
    (execCmd inner c cis s).2.srv.dbs = s.srv.dbs := by
  have hc : s.HasConn c := Sys.hasConn_of_tx (by rw [h]; rfl)
  rw [execCmd_run_failed inner cis h hf]
  exact ⟨rfl, clear_normal hc _ (fun _ => rfl) (fun _ => rfl), rfl⟩

theorem exec_without_multi (s : Sys) (inner : Inner) (c : Nat) (cis : List CI) (h : (s.conn c).tx = none) :
    execCmd inner c cis s = (.error (Msgs.fmt1 Msgs.WITHOUT_MULTI_MSG "EXEC"), s) :=
  execCmd_run_none inner cis h

theorem discard_without_multi (s : Sys) (c : Nat) (cis : List CI) (h : (s.conn c).tx = none) :
    discardCmd c cis s = (.error (Msgs.fmt1 Msgs.WITHOUT_MULTI_MSG "DISCARD"), s) :=
  discardCmd_run_none cis h

theorem discard_drops (s : Sys) (c : Nat) (cis : List CI) (h : (s.conn c).tx.isSome) :
    (discardCmd c cis s).1 = .ok (some .ok, cis) ∧
    ((discardCmd c cis s).2.conn c).normal ∧
    (discardCmd c cis s).2.srv.dbs = s.srv.dbs := by
  rw [discardCmd_run_some cis h]
  exact ⟨rfl, clear_normal (Sys.hasConn_of_tx h) _ (fun _ => rfl) (fun _ => rfl), rfl⟩

/-- the state (in particular `tx` with its queue) is kept -/
theorem watch_inside_multi_error (s : Sys) (c d : Nat) (args : List Arg) (cis : List CI)
    (h : (s.conn c).tx.isSome) : watchCmd c d args cis s = (.error Msgs.WATCH_INSIDE_MULTI_MSG, s) :=
  watchCmd_run_some d args cis h

theorem exec_watch_dirty_nil (s : Sys) (inner : Inner) (c : Nat) (cis : List CI)
    (q : List (String × List Bytes)) (h : (s.conn c).tx = some q) (hf : (s.conn c).txFailed = false)
    (hw : (s.conn c).watchNotified = true) :
    (execCmd inner c cis s).1 = .ok (some .nil, cis) ∧
    ((execCmd inner c cis s).2.conn c).normal ∧
    (execCmd inner c cis s).2.srv.dbs = s.srv.dbs := by
  have hc : s.HasConn c := Sys.hasConn_of_tx (by rw [h]; rfl)
  rw [execCmd_run_dirty inner cis h hf hw]
  exact ⟨rfl, clear_normal hc _ (fun _ => rfl) (fun _ => rfl), rfl⟩

example : ∃ s : Sys, (s.conn 7).tx = some [("set", [[1], [2]])] ∧ (s.conn 7).txFailed = false ∧
    (s.conn 7).watchNotified = true ∧ (s.conn 8).tx = some [] ∧ (s.conn 8).txFailed = true ∧
    (s.conn 9).tx = none :=
  ⟨{ srv := { conns := [{ id := 7, tx := some [("set", [[1], [2]])], watchNotified := true },
      { id := 8, tx := some [], txFailed := true }] } }, rfl, rfl, rfl, rfl, rfl, rfl⟩

/-! ## 6. after EXEC / DISCARD the connection is back in normal mode -/

/-- EXEC issued inside a MULTI, any branch (abort, dirty watch, run, even the crash branch), for an inner
runner that does not itself open a transaction or watch keys on `c` for the queued commands -/
theorem after_exec_normal_mode (s : Sys) (inner : Inner) (c : Nat) (cis : List CI)
    (q : List (String × List Bytes)) (htx : (s.conn c).tx = some q)
    (hinner : ∀ a ∈ q, ∀ sig, SigTable.find a.1 = some sig →
      ∀ s : Sys, (s.conn c).normal → ((inner sig a.2 s).2.conn c).normal) :
    ((execCmd inner c cis s).2.conn c).tx = none ∧
    ((execCmd inner c cis s).2.conn c).watches = [] ∧
    ((execCmd inner c cis s).2.conn c).watchNotified = false :=
  execCmd_normal inner c cis s htx hinner

/-- the side condition of `after_exec_normal_mode` holds for the real inner runner on every REGULAR command -/
theorem runInner_regular_keeps_normal (mode : Mode) (c : Nat) (sig : Sig) (raw : List Bytes) (body : Body)
    (h : Cmd.regular sig.name = some body) (s : Sys) (c' : Nat) (hn : (s.conn c').normal) :
    ((runInner mode c sig raw s).2.conn c').normal := by
  rw [runInner_regular_eq mode c sig raw h]
  exact runWith_regular_normal _ mode c sig raw false h s c' hn

/-- hence: a queue of regular commands -/
theorem after_exec_normal_mode_regular (s : Sys) (mode : Mode) (c : Nat) (cis : List CI)
    (q : List (String × List Bytes)) (htx : (s.conn c).tx = some q)
    (hreg : ∀ a ∈ q, ∀ sig, SigTable.find a.1 = some sig → (Cmd.regular sig.name).isSome) :
    ((execCmd (runInner mode c) c cis s).2.conn c).normal := by
  apply execCmd_normal _ c cis s htx
  intro a ha sig hs s' hn
  have := hreg a ha sig hs
  cases hb : Cmd.regular sig.name with
  | none => rw [hb] at this; simp at this
  | some body => exact runInner_regular_keeps_normal mode c sig a.2 body hb s' c hn

theorem after_discard_normal_mode (s : Sys) (c : Nat) (cis : List CI) (h : (s.conn c).tx.isSome) :
    ((discardCmd c cis s).2.conn c).tx = none ∧
    ((discardCmd c cis s).2.conn c).watches = [] ∧
    ((discardCmd c cis s).2.conn c).watchNotified = false :=
  (discard_drops s c cis h).2.1

example : ∃ (s : Sys) (q : List (String × List Bytes)), (s.conn 7).tx = some q ∧
    ∀ a ∈ q, ∀ sig, SigTable.find a.1 = some sig → (Cmd.regular sig.name).isSome :=
  ⟨{ srv := { conns := [{ id := 7, tx := some [("get", [[1]])] }] } }, _, rfl, by
    intro a ha sig hs
    simp only [List.mem_singleton] at ha
    subst ha
    have : sig = _ := (Option.some.inj hs).symm
    subst this
    rfl⟩

end FR.C05
