import FR.Proofs.C12t
/-!
# C12 (link): executions of the static lock table generate well-locked traces

Property C12 has a trace model (`FR/Sys/Lockset.lean`, `FR/Props/C12.lean`: a trace that passes `wellLocked` is
serialisable and has a linearisation) and a static table of the socket classes (`FR/Sys/LockTable.lean`,
`FR/Props/C12l.lean`: if `disciplined benign t` then along every call path from a root every access is under the lock or
benign).  This file connects them for ONE thread executing ONE command.

Semantics (`FR/Proofs/C12t.lean`).  `Exec tid t f held tr` / `LExec tid t f held ltr` (the same with a label
`(function, atom)` on every event): function `f` of table `t`, run by thread `tid` while it holds (`held`) / does not hold
the lock, may - in any order, any number of times - perform one of its accesses `(a, l)` and follow one of its call edges
`(g, l)`.  An entry that is lexically inside `with lock:` (`l`) while the lock is not held is bracketed `acq tid … rel tid`;
the callee runs with `held || l`; an access with `¬l ∧ ¬held` is a bare `acc` - an access WITHOUT the lock.  (`l ∧ held`,
a nested `with`, is treated as "already held"; the code never nests.)  Object ids and read/write flags are arbitrary.

Results, for a command entering at a root without the lock, scanned by `Lockset.bad` / `Lockset.next` from any state in
which the thread is inside a command and the lock is free:

* `exec_accesses_locked` - for a disciplined table every violation the scan reports is `acc-without-lock` at an access
  that the benign list names (by `(function, atom)` or `("*", atom)`); no other access is made without the lock, and
  `acq-while-held`, `acq-outside-command`, `rel-by-non-holder` are never reported; at the end the lock is free and the
  thread is still inside its command;
* `exec_violations` - the same for plain traces: all violations are `acc-without-lock`;
* `single_thread_wellLocked_partial` - with an EMPTY benign list: `wellLocked (call :: tr ++ [ret]) = true`, which is the
  hypothesis of `FR.Props.C12.welllocked_serial` / `linearization_exists`.
-/
namespace FR.Props.C12t
open FR.Lockset FR.LockTable FR.Props.C12l

/-- the scan state after `call tid cid` on a fresh server: `tid` inside `cid`, the lock free -/
def entry (tid : Tid) (cid : Cid) : St := next St.init (.call tid cid)

theorem entry_inv (tid : Tid) (cid : Cid) : Inv tid cid false (entry tid cid) :=
  ⟨rfl, false, by simp [entry, next, St.init, cget_cset]⟩

/-- **the link, labelled form.**  `st`: any scan state with the lock free and `tid` inside command `cid` (e.g. `entry`). -/
theorem exec_accesses_locked {b : List (String × String)} {t : Table} (hd : disciplined b t = true)
    {r : String} (hr : r ∈ roots t) {tid : Tid} {cid : Cid} {ltr : LTrace} (he : LExec tid t r false ltr)
    {st : St} (hst : Inv tid cid false st) :
    (∀ rep ∈ reports st ltr,
        rep.1 = "acc-without-lock" ∧ (rep.2 ∈ b ∨ ("*", rep.2.2) ∈ b)) ∧
      (∀ rep ∈ reports st ltr,
        rep.1 ≠ "acq-while-held" ∧ rep.1 ≠ "rel-by-non-holder" ∧ rep.1 ≠ "acq-outside-command") ∧
      Inv tid cid false (run st ltr) := by
  unfold disciplined at hd
  simp only [Bool.and_eq_true] at hd
  obtain ⟨h1, h2⟩ := exec_reports hd.1 hd.2 he st hst (.inr (closed_roots hd.1 hr))
  refine ⟨h1, ?_, h2⟩
  intro rep hrep
  rw [(h1 rep hrep).1]
  decide

/-- a non-benign access is never reported -/
theorem nonbenign_access_locked {b : List (String × String)} {t : Table} (hd : disciplined b t = true)
    {r : String} (hr : r ∈ roots t) {tid : Tid} {cid : Cid} {ltr : LTrace} (he : LExec tid t r false ltr)
    {st : St} (hst : Inv tid cid false st) {f a : String} (hb1 : (f, a) ∉ b) (hb2 : ("*", a) ∉ b) :
    ("acc-without-lock", (f, a)) ∉ reports st ltr := by
  intro hmem
  rcases ((exec_accesses_locked hd hr he hst).1 _ hmem).2 with h | h
  · exact hb1 h
  · exact hb2 h

/-- the violations along a plain trace -/
def violations (st : St) : Trace → List String
  | [] => []
  | e :: rest => (bad st e).toList ++ violations (next st e) rest

theorem violations_proj (st : St) (ltr : LTrace) : violations st (proj ltr) = (reports st ltr).map (·.1) := by
  induction ltr generalizing st with
  | nil => rfl
  | cons x xs ih =>
    obtain ⟨e, lab⟩ := x
    simp only [proj, List.map_cons, violations, reports, List.map_append]
    rw [← proj, ih]
    cases bad st e <;> rfl

/-- **the link, plain traces**: everything the scan can object to in an execution of a disciplined table is an access
outside the lock (one of the benign ones, see `exec_accesses_locked`); the lock is taken and released properly. -/
theorem exec_violations {b : List (String × String)} {t : Table} (hd : disciplined b t = true)
    {r : String} (hr : r ∈ roots t) {tid : Tid} {cid : Cid} {tr : Trace} (he : Exec tid t r false tr)
    {st : St} (hst : Inv tid cid false st) :
    ∀ v ∈ violations st tr, v = "acc-without-lock" := by
  obtain ⟨ltr, hl, rfl⟩ := exec_labelled he
  intro v hv
  rw [violations_proj, List.mem_map] at hv
  obtain ⟨rep, hrep, rfl⟩ := hv
  exact ((exec_accesses_locked hd hr hl hst).1 rep hrep).1

/-- **corollary: single-thread executions of a table that is disciplined without exemptions are well-locked.**
This is the hypothesis of `FR.Props.C12.welllocked_serial` and `linearization_exists`, established for every execution of
the table by one thread instead of for recorded traces.

Several threads.  A trace of several threads is an interleaving of such single-thread traces.  All checks of `bad` except
one look only at the acting thread's own state: `acc t` / `rel t` / `ret t` ask whether `t` itself holds the lock,
`call t` / `acq-outside-command` ask for `t`'s own current command - and `next` changes the holder only at `acq` / `rel`.
So if (i) every thread's projection is an execution as above (this theorem, per thread), (ii) command ids are fresh, and
(iii) no `acq t` is scheduled while another thread holds the lock - `acq-while-held`, which is exactly the mutual exclusion
that `threading.Lock` itself provides, not a property of the code - then the interleaving is `wellLocked`: by induction
over the interleaving with the invariant "the holder is the unique thread whose own scan is between `acq` and `rel`",
using that events of other threads do not change `st.holder = some t` for `t` between its `acq` and `rel` (they cannot
`acq` by (iii), cannot `rel` by their own discipline).  `Condition.wait` (a `rel` … `acq` inside a `with` block) is not in
the table semantics.  The induction over interleavings is not formalised; its two local ingredients are
`other_thread_frame` and `own_event_verdict` below. -/
theorem single_thread_wellLocked_partial {t : Table} (hd : disciplined [] t = true)
    {r : String} (hr : r ∈ roots t) {tid : Tid} {cid : Cid} {tr : Trace} (he : Exec tid t r false tr) :
    wellLocked ([.call tid cid] ++ tr ++ [.ret tid cid]) = true := by
  obtain ⟨ltr, hl, rfl⟩ := exec_labelled he
  obtain ⟨h1, -, hinv⟩ := exec_accesses_locked hd hr hl (entry_inv tid cid)
  have hnil : reports (entry tid cid) ltr = [] := by
    cases hrep : reports (entry tid cid) ltr with
    | nil => rfl
    | cons x xs =>
      have := (h1 x (by simp [hrep])).2
      simp at this
  have hcall : ok St.init (.call tid cid) = true := by simp [ok, bad, St.init, cget]
  obtain ⟨hh, bb, hc⟩ := hinv
  simp only [Bool.false_eq_true, if_false] at hh
  have hret : bad (run (entry tid cid) ltr) (.ret tid cid) = none := by simp [bad, hh, cmdOf, hc]
  simp only [wellLocked, List.cons_append, List.nil_append, wlFrom, hcall, Bool.true_and]
  rw [show next St.init (.call tid cid) = entry tid cid from rfl, wlFrom_of_reports_nil _ _ _ hnil]
  simp [wlFrom, ok, hret, next, hh]

/-! ## towards several threads (partial): the discipline is thread-local except for `acq-while-held` -/

/-- **thread locality of the discipline**: an event of ANOTHER thread that the scan accepts leaves the part of the state
that the checks on `tid`'s events read (does `tid` hold the lock; `tid`'s current command) unchanged. -/
theorem other_thread_frame {tid : Tid} {cid : Cid} {held : Bool} {st : St} (h : LInv tid cid held st)
    {e : Ev} (hne : evTid e ≠ tid) (hok : bad st e = none) : LInv tid cid held (next st e) := by
  obtain ⟨hh, b, hc⟩ := h
  cases e with
  | call u c =>
    simp only [evTid] at hne
    exact ⟨by simpa [next] using hh, b, by simpa [next, cget_cset_ne _ _ hne] using hc⟩
  | ret u c =>
    simp only [evTid] at hne
    exact ⟨by simpa [next] using hh, b, by simpa [next, cget_cdel_ne _ hne] using hc⟩
  | acq u =>
    simp only [evTid] at hne
    have hfree : st.holder = none := by
      cases hst : st.holder with
      | none => rfl
      | some x => simp [bad, hst] at hok
    have hheld : held = false := by
      cases held with
      | false => rfl
      | true => rw [hfree] at hh; simp at hh
    subst hheld
    refine ⟨by simp [next, hne], b, ?_⟩
    simp only [next]
    cases hcu : cget st.cur u with
    | none => simpa using hc
    | some p => obtain ⟨c', b'⟩ := p; simpa [cget_cset_ne _ _ hne] using hc
  | rel u =>
    simp only [evTid] at hne
    have hu : st.holder = some u := by
      by_cases hx : st.holder = some u
      · exact hx
      · simp [bad, hx] at hok
    have hheld : held = false := by
      cases held with
      | false => rfl
      | true => rw [hu] at hh; simp at hh; exact absurd hh hne
    subst hheld
    exact ⟨by simp [next], b, by simpa [next] using hc⟩
  | acc u o w => exact ⟨by simpa [next] using hh, b, by simpa [next] using hc⟩

/-- … and the verdict on `tid`'s own events other than `acq` depends on that part only: two states that agree on it give
the same verdict (for `acq tid` the additional condition is that no OTHER thread holds the lock - mutual exclusion). -/
theorem own_event_verdict {tid : Tid} {cid : Cid} {held : Bool} {st st' : St}
    (h : LInv tid cid held st) (h' : LInv tid cid held st') :
    (∀ o w, bad st (.acc tid o w) = bad st' (.acc tid o w)) ∧ bad st (.rel tid) = bad st' (.rel tid) ∧
      bad st (.ret tid cid) = bad st' (.ret tid cid) := by
  obtain ⟨hh, b, hc⟩ := h
  obtain ⟨hh', b', hc'⟩ := h'
  have hiff : st.holder = some tid ↔ st'.holder = some tid := hh.trans hh'.symm
  by_cases hx : st.holder = some tid
  · have hx' := hiff.mp hx
    exact ⟨fun o w => by simp [bad, hx, hx'], by simp [bad, hx, hx'], by simp [bad, hx, hx']⟩
  · have hx' : ¬ st'.holder = some tid := fun h => hx (hiff.mpr h)
    exact ⟨fun o w => by simp [bad, hx, hx'], by simp [bad, hx, hx'], by simp [bad, cmdOf, hc, hc', hx, hx']⟩

/-- non-vacuity: thread 2 runs a whole critical section while thread 1 is inside command 10 without the lock -/
example : LInv 1 10 false (entry 1 10) ∧ bad (entry 1 10) (.call 2 20) = none ∧
    LInv 1 10 false (next (next (next (entry 1 10) (.call 2 20)) (.acq 2)) (.rel 2)) := by
  refine ⟨⟨by decide, false, by decide⟩, by decide, ⟨by decide, false, by decide⟩⟩

/-! ## non-vacuity on the small tables of `FR/Props/C12l.lean` -/

/-- an execution of `good` (thread 1): the benign read of `connected`, the clock under the lock, the command body under
the lock through `dispatch → run → get`, the reply outside -/
def goodRun : LTrace :=
  [(.acc 1 7 false, ("sendall", "S:connected")),
   (.acq 1, ("dispatch", "")), (.acc 1 0 true, ("dispatch", "T")), (.rel 1, ("dispatch", "")),
   (.acq 1, ("dispatch", "")), (.acc 1 5 true, ("get", "body")), (.rel 1, ("dispatch", ""))]

theorem goodRun_exec : LExec 1 good "sendall" false goodRun :=
  .access 7 false (fn := good[0]) (a := "S:connected") (l := false) (by decide) rfl (by decide)
    (.call (fn := good[0]) (g := "dispatch") (l := false) (by decide) rfl (by decide)
      (.access 0 true (fn := good[1]) (a := "T") (l := true) (by decide) rfl (by decide)
        (.call (fn := good[1]) (g := "run") (l := true) (by decide) rfl (by decide)
          (.call (fn := good[2]) (g := "get") (l := false) (by decide) rfl (by decide)
            (.access 5 true (fn := good[3]) (a := "body") (l := false) (by decide) rfl (by decide) (.done _ _))
            (.done _ _))
          (.call (fn := good[1]) (g := "reply") (l := false) (by decide) rfl (by decide) (.done _ _) (.done _ _))))
      (.done _ _))

/-- the only thing the scan reports is the benign read -/
example : reports (entry 1 10) goodRun = [("acc-without-lock", ("sendall", "S:connected"))] := by decide
/-- … as `exec_accesses_locked` says (its hypotheses hold for `good`) -/
example : ∀ rep ∈ reports (entry 1 10) goodRun, rep.1 = "acc-without-lock" ∧ (rep.2 ∈ benign ∨ ("*", rep.2.2) ∈ benign) :=
  (exec_accesses_locked (b := benign) (t := good) (by decide) (by decide) goodRun_exec (entry_inv 1 10)).1
example : ("acc-without-lock", ("get", "body")) ∉ reports (entry 1 10) goodRun :=
  nonbenign_access_locked (b := benign) (t := good) (by decide) (by decide) goodRun_exec (entry_inv 1 10)
    (by decide) (by decide)

/-- the same execution without the benign read is well-locked -/
example : Exec 1 good "sendall" false (proj (goodRun.drop 1)) ∧
    wellLocked ([.call 1 10] ++ proj (goodRun.drop 1) ++ [.ret 1 10]) = true := by
  refine ⟨lexec_proj ?_, by decide⟩
  exact .call (fn := good[0]) (g := "dispatch") (l := false) (by decide) rfl (by decide)
      (.access 0 true (fn := good[1]) (a := "T") (l := true) (by decide) rfl (by decide)
        (.call (fn := good[1]) (g := "run") (l := true) (by decide) rfl (by decide)
          (.call (fn := good[2]) (g := "get") (l := false) (by decide) rfl (by decide)
            (.access 5 true (fn := good[3]) (a := "body") (l := false) (by decide) rfl (by decide) (.done _ _))
            (.done _ _))
          (.call (fn := good[1]) (g := "reply") (l := false) (by decide) rfl (by decide) (.done _ _) (.done _ _))))
      (.done _ _)

/-- `good` without the unsynchronised read of `connected`: disciplined without exemptions -/
def good0 : Table :=
  [⟨"sendall", true, [], [("dispatch", false)]⟩,
   ⟨"dispatch", false, [("T", true)], [("run", true), ("reply", false)]⟩,
   ⟨"run", false, [], [("get", false)]⟩,
   ⟨"get", false, [("body", false)], []⟩,
   ⟨"reply", false, [], []⟩]

example : disciplined [] good0 = true := by decide
example : disciplined [] good = false := by decide

/-- `single_thread_wellLocked_partial` applies to `good0` and to a trace with two critical sections -/
example : Exec 1 good0 "sendall" false [.acq 1, .acc 1 0 true, .rel 1, .acq 1, .acc 1 5 true, .rel 1] :=
  .call (fn := good0[0]) (g := "dispatch") (l := false) (body := [.acq 1, .acc 1 0 true, .rel 1, .acq 1, .acc 1 5 true, .rel 1])
    (rest := []) (by decide) rfl (by decide)
    (.access 0 true (fn := good0[1]) (a := "T") (l := true) (rest := [.acq 1, .acc 1 5 true, .rel 1]) (by decide) rfl (by decide)
      (.call (fn := good0[1]) (g := "run") (l := true) (body := [.acc 1 5 true]) (rest := []) (by decide) rfl (by decide)
        (.call (fn := good0[2]) (g := "get") (l := false) (body := [.acc 1 5 true]) (rest := []) (by decide) rfl (by decide)
          (.access 5 true (fn := good0[3]) (a := "body") (l := false) (rest := []) (by decide) rfl (by decide) (.done _ _))
          (.done _ _))
        (.done _ _)))
    (.done _ _)
example : wellLocked ([.call 1 10] ++ [.acq 1, .acc 1 0 true, .rel 1, .acq 1, .acc 1 5 true, .rel 1] ++ [.ret 1 10]) = true := by
  decide

/-- sensitivity: in `clockBeforeLock` (rejected by the check) the clock is read before the `with` block - an execution
whose trace has a non-benign `acc-without-lock`, and which is not well-locked -/
def clockRun : LTrace :=
  [(.acc 1 0 true, ("dispatch", "T")), (.acq 1, ("dispatch", "")), (.acc 1 5 true, ("get", "body")), (.rel 1, ("dispatch", ""))]

theorem clockRun_exec : LExec 1 clockBeforeLock "sendall" false clockRun :=
  .call (fn := clockBeforeLock[0]) (g := "dispatch") (l := false) (by decide) rfl (by decide)
    (.access 0 true (fn := clockBeforeLock[1]) (a := "T") (l := false) (by decide) rfl (by decide)
      (.call (fn := clockBeforeLock[1]) (g := "run") (l := true) (by decide) rfl (by decide)
        (.call (fn := clockBeforeLock[2]) (g := "get") (l := false) (by decide) rfl (by decide)
          (.access 5 true (fn := clockBeforeLock[3]) (a := "body") (l := false) (by decide) rfl (by decide) (.done _ _))
          (.done _ _))
        (.done _ _)))
    (.done _ _)

example : reports (entry 1 10) clockRun = [("acc-without-lock", ("dispatch", "T"))] := by decide
example : ("dispatch", "T") ∉ benign ∧ ("*", "T") ∉ benign := by decide
example : wellLocked ([.call 1 10] ++ proj clockRun ++ [.ret 1 10]) = false := by decide
/-- so the conclusion of `exec_accesses_locked` fails for `clockBeforeLock`: the hypothesis `disciplined` is needed -/
example : ¬ ∀ rep ∈ reports (entry 1 10) clockRun, rep.1 = "acc-without-lock" ∧ (rep.2 ∈ benign ∨ ("*", rep.2.2) ∈ benign) := by
  decide

end FR.Props.C12t
