import FR.Proofs.System
/-!
# C10 — pub/sub: deliveries of PUBLISH, acknowledgements of (P)SUBSCRIBE / (P)UNSUBSCRIBE,
channels are global (independent of the selected database)

`s.conn c` abbreviates `(M.getConn c s).1`; `s.HasConn c` says a connection with id `c` is registered
in `s.srv.conns`.  `Sys.out` lists the emitted replies newest first.
-/
namespace FR.C10
open FR FR.M

/-! ## 7. PUBLISH -/

/-- (a) who receives what -/
theorem deliveries_spec (srv : Server) (ch msg : Bytes) (c : Nat) (r : Reply) :
    (c, r) ∈ deliveries srv ch msg ↔
      (c ∈ (srv.subs.lookup ch).getD [] ∧ r = .arr [.bulk (strBytes "message"), .bulk ch, .bulk msg]) ∨
      (∃ pat cs, (pat, cs) ∈ srv.psubs ∧ Glob.globMatch pat ch = true ∧ c ∈ cs ∧
        r = .arr [.bulk (strBytes "pmessage"), .bulk pat, .bulk ch, .bulk msg]) :=
  mem_deliveries srv ch msg c r

/-- (c) channel deliveries (in the order of the channel's subscriber list) come before the pattern
deliveries (patterns in table order, each pattern's subscribers in list order) -/
theorem deliveries_channel_before_pattern (srv : Server) (ch msg : Bytes) :
    deliveries srv ch msg =
      ((srv.subs.lookup ch).getD []).map
        (fun c => (c, Reply.arr [.bulk (strBytes "message"), .bulk ch, .bulk msg]))
      ++ (srv.psubs.filter (fun p => Glob.globMatch p.1 ch)).flatMap fun p =>
        p.2.map fun c => (c, Reply.arr [.bulk (strBytes "pmessage"), .bulk p.1, .bulk ch, .bulk msg]) :=
  rfl

/-- (b) PUBLISH returns the number of deliveries, emits exactly these (to the connections that are not
closed) in this order (`out` is newest first), and changes nothing else -/
theorem publish_spec (ch msg : Bytes) (s : Sys) :
    (publish ch msg s).1 = (deliveries s.srv ch msg).length ∧
    (publish ch msg s).2 =
      { s with out := ((deliveries s.srv ch msg).filter fun d => !(s.conn d.1).closed).reverse ++ s.out } := by
  rw [publish_run]; exact ⟨rfl, rfl⟩

example :
    let s : Sys := { srv := { subs := [([1], [7, 8])], conns := [{ id := 7 }, { id := 8 }] } }
    (publish [1] [2] s).1 = 2 ∧ ((publish [1] [2] s).2.out.map Prod.fst) = [8, 7] := ⟨rfl, rfl⟩

/-! ## 8. acknowledgements -/

/-- one acknowledgement per name, all addressed to `c` -/
theorem subscribe_acks (c : Nat) (pattern : Bool) (names : List Bytes) (s : Sys)
    (hopen : (s.conn c).closed = false) :
    ∃ acks : List (Nat × Reply), (subscribeGen c pattern names s).2.out = acks ++ s.out ∧
      acks.length = names.length ∧ ∀ a ∈ acks, a.1 = c :=
  subscribeGen_out c pattern names s hopen

/-- a single name: the table is updated by `tblSubscribe`, the count grows by one iff `c` was not yet in
the entry, and the acknowledgement carries the new count -/
theorem subscribe_single (c : Nat) (pattern : Bool) (name : Bytes) (s : Sys) (hc : s.HasConn c) :
    let t := if pattern then s.srv.psubs else s.srv.subs
    let already := ((t.lookup name).getD []).contains c
    let s' := (subscribeGen c pattern [name] s).2
    (if pattern then s'.srv.psubs else s'.srv.subs) = (tblSubscribe t name c).1 ∧
    (s'.conn c).pubsub = (s.conn c).pubsub + (if already then 0 else 1) ∧
    s'.out = if (s.conn c).closed then s.out else
      (c, .arr [.bulk (strBytes (if pattern then "psubscribe" else "subscribe")), .bulk name,
        .int (s'.conn c).pubsub]) :: s.out := by
  intro t already s'
  have hs' : s' = (s.subState c pattern name).emitS c
      (subAck pattern name ((s.subState c pattern name).conn c).pubsub) := by
    show (subscribeGen c pattern [name] s).2 = _
    rw [subscribeGen_single_run]
  refine ⟨?_, ?_, ?_⟩
  · rw [hs', Sys.emitS_srv]; exact Sys.subState_tbl s c pattern name
  · rw [hs', Sys.emitS_conn]; exact Sys.subState_pubsub s c pattern name hc
  · rw [hs', Sys.emitS_out, Sys.emitS_conn, Sys.subState_out,
      Sys.subState_proj s c c pattern name Conn.closed (fun _ _ => rfl)]
    rfl

/-- `tblSubscribe` reports `true` iff `c` was not yet a member of the entry -/
theorem tblSubscribe_added (t : List (Bytes × List Nat)) (n : Bytes) (c : Nat) :
    (tblSubscribe t n c).2 = !((t.lookup n).getD []).contains c :=
  tblSubscribe_snd t n c

/-- the entry afterwards: `c` appended unless already present; other entries keep their members -/
theorem tblSubscribe_entry (t : List (Bytes × List Nat)) (n : Bytes) (c : Nat) :
    (((tblSubscribe t n c).1.lookup n).getD []) =
      (if ((t.lookup n).getD []).contains c then (t.lookup n).getD [] else (t.lookup n).getD [] ++ [c]) ∧
    ∀ m, m ≠ n → ((tblSubscribe t n c).1.lookup m).getD [] = (t.lookup m).getD [] :=
  ⟨tblSubscribe_members t n c, fun m hm => tblSubscribe_members_ne t n m c hm⟩

/-- subscribing twice does not double -/
theorem tblSubscribe_idempotent (t : List (Bytes × List Nat)) (n : Bytes) (c : Nat) :
    tblSubscribe (tblSubscribe t n c).1 n c = ((tblSubscribe t n c).1, false) :=
  tblSubscribe_idem t n c

example :
    let s : Sys := { srv := { conns := [{ id := 7 }] } }
    (subscribeGen 7 false [[1], [1], [2]] s).2.out =
      [(7, .arr [.bulk (strBytes "subscribe"), .bulk [2], .int 2]),
       (7, .arr [.bulk (strBytes "subscribe"), .bulk [1], .int 1]),
       (7, .arr [.bulk (strBytes "subscribe"), .bulk [1], .int 1])] := rfl

/-- one acknowledgement per name (explicit names), or per subscribed name / exactly one when there is
none (no names) -/
theorem unsubscribe_acks (c : Nat) (pattern : Bool) (names : List Bytes) (s : Sys)
    (hopen : (s.conn c).closed = false) :
    ∃ acks : List (Nat × Reply), (unsubscribeGen c pattern names s).2.out = acks ++ s.out ∧
      acks.length = (if names = [] then
          max 1 (((if pattern then s.srv.psubs else s.srv.subs).filter fun p => p.2.contains c).map Prod.fst).length
        else names.length) ∧
      ∀ a ∈ acks, a.1 = c :=
  unsubscribeGen_out c pattern names s hopen

/-- a single name: the count drops by one iff `c` was in the entry; the acknowledgement carries the new
count; an unknown channel is still acknowledged once and changes nothing but `out` -/
theorem unsubscribe_single (c : Nat) (pattern : Bool) (name : Bytes) (s : Sys) (hc : s.HasConn c) :
    let t := if pattern then s.srv.psubs else s.srv.subs
    let member := ((t.lookup name).getD []).contains c
    let s' := (unsubscribeGen c pattern [name] s).2
    (if pattern then s'.srv.psubs else s'.srv.subs) = (tblUnsubscribe t name c).1 ∧
    (s'.conn c).pubsub = (s.conn c).pubsub - (if member then 1 else 0) ∧
    (s'.out = if (s.conn c).closed then s.out else
      (c, .arr [.bulk (strBytes (if pattern then "punsubscribe" else "unsubscribe")), .bulk name,
        .int (s'.conn c).pubsub]) :: s.out) ∧
    (member = false → s' = { s with out := s'.out }) := by
  intro t member s'
  have hs' : s' = (s.unsubState c pattern name).emitS c
      (unsubAck pattern name ((s.unsubState c pattern name).conn c).pubsub) := by
    show (unsubscribeGen c pattern [name] s).2 = _
    rw [unsubscribeGen_single_run]
  refine ⟨?_, ?_, ?_, ?_⟩
  · rw [hs', Sys.emitS_srv]; exact Sys.unsubState_tbl s c pattern name
  · rw [hs', Sys.emitS_conn]; exact Sys.unsubState_pubsub s c pattern name hc
  · rw [hs', Sys.emitS_out, Sys.emitS_conn, Sys.unsubState_out,
      Sys.unsubState_proj s c c pattern name Conn.closed (fun _ _ => rfl)]
    rfl
  · intro hm
    rw [hs', Sys.unsubState_unknown s c pattern name hm]
    unfold Sys.emitS; split <;> rfl

theorem tblUnsubscribe_removed (t : List (Bytes × List Nat)) (n : Bytes) (c : Nat) :
    (tblUnsubscribe t n c).2 = ((t.lookup n).getD []).contains c :=
  tblUnsubscribe_snd t n c

theorem tblUnsubscribe_entry (t : List (Bytes × List Nat)) (n : Bytes) (c : Nat) :
    (((tblUnsubscribe t n c).1.lookup n).getD []) = ((t.lookup n).getD []).filter (· != c) ∧
    ∀ m, m ≠ n → ((tblUnsubscribe t n c).1.lookup m).getD [] = (t.lookup m).getD [] :=
  ⟨tblUnsubscribe_members t n c, fun m hm => tblUnsubscribe_members_ne t n m c hm⟩

theorem tblUnsubscribe_idempotent (t : List (Bytes × List Nat)) (n : Bytes) (c : Nat) :
    tblUnsubscribe (tblUnsubscribe t n c).1 n c = ((tblUnsubscribe t n c).1, false) :=
  tblUnsubscribe_idem t n c

/-- UNSUBSCRIBE without names while subscribed to nothing: exactly one reply `[mtype, nil, count]` -/
theorem unsubscribe_nothing_acked_once (c : Nat) (pattern : Bool) (s : Sys)
    (hnone : ∀ p ∈ (if pattern then s.srv.psubs else s.srv.subs), c ∉ p.2) :
    (unsubscribeGen c pattern [] s).2 =
      if (s.conn c).closed then s else
        { s with out := (c, .arr [.bulk (strBytes (if pattern then "punsubscribe" else "unsubscribe")), .nil,
            .int (s.conn c).pubsub]) :: s.out } := by
  have : s.subscribedNames c pattern = [] := by
    unfold Sys.subscribedNames Sys.tbl
    rw [List.map_eq_nil_iff, List.filter_eq_nil_iff]
    intro p hp
    simpa using hnone p hp
  rw [unsubscribeGen_nil_none _ _ _ this]
  rfl

example :
    let s : Sys := { srv := { subs := [([1], [7])], conns := [{ id := 7, pubsub := 1 }] } }
    (unsubscribeGen 7 false [[1], [3]] s).2.out =
      [(7, .arr [.bulk (strBytes "unsubscribe"), .bulk [3], .int 0]),
       (7, .arr [.bulk (strBytes "unsubscribe"), .bulk [1], .int 0])] ∧
    (unsubscribeGen 7 true [] s).2.out = [(7, .arr [.bulk (strBytes "punsubscribe"), .nil, .int 1])] := ⟨rfl, rfl⟩

/-! ## 9. channels are global -/

/-- SUBSCRIBE / UNSUBSCRIBE / PUBLISH neither write a database nor any connection's selected database -/
theorem channels_global (c : Nat) (pattern : Bool) (names : List Bytes) (ch msg : Bytes) (s : Sys) :
    ((subscribeGen c pattern names s).2.srv.dbs = s.srv.dbs ∧
      ∀ c', ((subscribeGen c pattern names s).2.conn c').db = (s.conn c').db) ∧
    ((unsubscribeGen c pattern names s).2.srv.dbs = s.srv.dbs ∧
      ∀ c', ((unsubscribeGen c pattern names s).2.conn c').db = (s.conn c').db) ∧
    ((publish ch msg s).2.srv.dbs = s.srv.dbs ∧
      ∀ c', ((publish ch msg s).2.conn c').db = (s.conn c').db) := by
  refine ⟨⟨?_, fun c' => ?_⟩, ⟨?_, fun c' => ?_⟩, ?_⟩
  · exact forM_subStep_frame (fun s => s.srv.dbs) c pattern (fun s n => Sys.subState_dbs s c pattern n)
      (fun s r => by simp only [Sys.emitS_srv]) names s
  · exact forM_subStep_frame (fun s => (s.conn c').db) c pattern
      (fun s n => Sys.subState_proj s c c' pattern n Conn.db (fun _ _ => rfl))
      (fun s r => by simp only [Sys.emitS_conn]) names s
  · exact unsubscribeGen_frame (fun s => s.srv.dbs) c pattern (fun s n => Sys.unsubState_dbs s c pattern n)
      (fun s r => by simp only [Sys.emitS_srv]) names s
  · exact unsubscribeGen_frame (fun s => (s.conn c').db) c pattern
      (fun s n => Sys.unsubState_proj s c c' pattern n Conn.db (fun _ _ => rfl))
      (fun s r => by simp only [Sys.emitS_conn]) names s
  · rw [publish_run]; exact ⟨rfl, fun _ => rfl⟩

end FR.C10
