import FR.Proofs.Strings
/-! # C01 — strings: final theorems -/
namespace FR.Props.C01
open FR FR.Spec FR.Proofs

/-- GETRANGE: `_fix_range_string` + Python slice = the declarative Redis window -/
theorem getrange_window (v : Bytes) (s e : Int) :
    (let (a, b) := fixRangeString s e v.length; Py.slice v a b) = getrangeSpec v s e :=
  FR.Proofs.getrange_window v s e
example : getrangeSpec [1, 2, 3, 4, 5] (-3) (-1) = [3, 4, 5] ∧ getrangeSpec [1, 2, 3] (-1) (-2) = [] ∧
    getrangeSpec [1, 2, 3] (-100) 100 = [1, 2, 3] ∧ getrangeSpec [] 0 (-1) = [] := by decide

theorem getrange_body (ctx : Ctx) (cis : List CI) (k : Nat) (s e : Int) :
    Cmd.getrange ctx [.key k, .int s, .int e] cis =
      ret (.bulk (getrangeSpec (Cmd.strGet (ciAt cis k) []) s e)) cis :=
  FR.Proofs.getrange_body ctx cis k s e

/-- SETRANGE: resulting length and every byte of the result -/
theorem setrange_bytes (old : Bytes) (o : Nat) (v : Bytes) :
    (setrangeBytes old o v).length = max old.length (o + v.length) ∧
    ∀ i : Nat,
      (o ≤ i → i < o + v.length → (setrangeBytes old o v)[i]? = v[i - o]?) ∧
      (i < o → i < old.length → (setrangeBytes old o v)[i]? = old[i]?) ∧
      (old.length ≤ i → i < o → (setrangeBytes old o v)[i]? = some 0) ∧
      (o + v.length ≤ i → (setrangeBytes old o v)[i]? = old[i]?) :=
  FR.Proofs.setrange_bytes old o v
example : setrangeBytes [1, 2] 4 [9, 9] = [1, 2, 0, 0, 9, 9] ∧
    setrangeBytes [1, 2, 3, 4] 1 [9] = [1, 9, 3, 4] := by decide

/-- `setrangeBytes` is what the body of SETRANGE stores (and its length is the reply) -/
theorem setrange_body (ctx : Ctx) (cis : List CI) (k : Nat) (off : Int) (v : Bytes)
    (h0 : 0 ≤ off) (hv : v ≠ []) (hmax : off + v.length ≤ Conv.MAX_STRING_SIZE) :
    Cmd.setrange ctx [.key k, .int off, .raw v] cis =
      (let out := setrangeBytes (Cmd.strGet (ciAt cis k) []) off.toNat v
       ret (.int out.length) (cis.set k ((ciAt cis k).update (.str out)))) :=
  FR.Proofs.setrange_body ctx cis k off v h0 hv hmax
example : (0 : Int) ≤ 3 ∧ ([7] : Bytes) ≠ [] ∧ (3 : Int) + ([7] : Bytes).length ≤ Conv.MAX_STRING_SIZE := by
  decide

/-- APPEND: reply = old length + appended length; stored value = concatenation -/
theorem append_length (ctx : Ctx) (cis : List CI) (k : Nat) (v : Bytes) :
    Cmd.append ctx [.key k, .raw v] cis =
      (let old := Cmd.strGet (ciAt cis k) []
       if old.length + v.length > Conv.MAX_STRING_SIZE then .error Msgs.STRING_OVERFLOW_MSG
       else ret (.int (old.length + v.length : Nat))
              (cis.set k ((ciAt cis k).update (.str (old ++ v))))) :=
  FR.Proofs.append_length ctx cis k v

/-- INCR family: refused (an error carries no state, so nothing changes) unless the stored value is a
canonical signed 64-bit integer and the sum stays in range; then reply = sum and the stored string
is the canonical decimal of the reply -/
theorem incr_overflow_refused_unchanged (cis : List CI) (k : Nat) (a : Int) :
    let c := ciAt cis k
    let stored := Cmd.strGet c (strBytes "0")
    (∀ e, Conv.int stored = .error e → Cmd.incrbyCore cis k a = .error e) ∧
    (∀ cur, Conv.int stored = .ok cur → ¬ (Conv.INT_MIN ≤ cur + a ∧ cur + a ≤ Conv.INT_MAX) →
        Cmd.incrbyCore cis k a = .error Msgs.OVERFLOW_MSG) ∧
    (∀ cur, Conv.int stored = .ok cur → (Conv.INT_MIN ≤ cur + a ∧ cur + a ≤ Conv.INT_MAX) →
        Cmd.incrbyCore cis k a =
          .ok { reply := .int (cur + a),
                cis := cis.set k (c.update (.str (intBytes (cur + a)))) }) :=
  FR.Proofs.incr_overflow_refused_unchanged cis k a

/-- when is the stored value accepted: exactly the canonical decimals in the 64-bit range -/
theorem incr_stored_accepted (b : Bytes) (n : Int) :
    Conv.int b = .ok n ↔ parseCanonInt b = some n ∧ Conv.INT_MIN ≤ n ∧ n ≤ Conv.INT_MAX :=
  conv_int_ok_iff b n

theorem incr_ok_inv (cis : List CI) (k : Nat) (a : Int) (o : BodyOut)
    (h : Cmd.incrbyCore cis k a = .ok o) :
    ∃ cur, parseCanonInt (Cmd.strGet (ciAt cis k) (strBytes "0")) = some cur ∧
      Conv.INT_MIN ≤ cur ∧ cur ≤ Conv.INT_MAX ∧
      Conv.INT_MIN ≤ cur + a ∧ cur + a ≤ Conv.INT_MAX ∧
      o.reply = .int (cur + a) ∧
      o.cis = cis.set k ((ciAt cis k).update (.str (intBytes (cur + a)))) :=
  FR.Proofs.incr_ok_inv cis k a o h
example :
    parseCanonInt [57, 50, 50, 51, 51, 55, 50, 48, 51, 54, 56, 53, 52, 55, 55, 53, 56, 48, 55]
      = some 9223372036854775807 ∧
    ¬ (Conv.INT_MIN ≤ (9223372036854775807 : Int) + 1 ∧ (9223372036854775807 : Int) + 1 ≤ Conv.INT_MAX) ∧
    (Conv.INT_MIN ≤ (9223372036854775807 : Int) + (-1) ∧ (9223372036854775807 : Int) + (-1) ≤ Conv.INT_MAX) ∧
    parseCanonInt [48, 49] = none := by decide

/-- the stored decimal is canonical: it parses back to the same integer, so the value written by
INCRBY is accepted by the next INCRBY/GET-as-integer and reads back as the reply -/
theorem incr_stored_canonical (n : Int) : parseCanonInt (intBytes n) = some n :=
  parseCanonInt_intBytes n

theorem incr_then_readable (cis : List CI) (k : Nat) (a : Int) (o : BodyOut)
    (h : Cmd.incrbyCore cis k a = .ok o) (hk : k < cis.length) :
    ∃ n, o.reply = .int n ∧ Conv.int (Cmd.strGet (ciAt o.cis k) (strBytes "0")) = .ok n :=
  FR.Proofs.incr_then_readable cis k a o h hk
example :
    let c : CI := { key := [1], val := some (.str [57, 57]), expireat := none }
    (Cmd.incrbyCore [c] 0 1).toOption.map (fun o => Cmd.strGet (ciAt o.cis 0) [])
      = some [49, 48, 48] := by with_unfolding_all decide

/-- SETBIT then GETBIT -/
theorem setbit_getbit (v : Bytes) (off b : Int) (hb : b = 0 ∨ b = 1) (h0 : 0 ≤ off) :
    getBitBytes (setBitBytes v off b) off = b ∧
    ∀ off', 0 ≤ off' → off' ≠ off → getBitBytes (setBitBytes v off b) off' = getBitBytes v off' :=
  ⟨setbit_getbit_same v off b hb, fun off' h0' hne => setbit_getbit_other v off off' b h0 h0' hne⟩
example : setBitBytes [0] 9 1 = [0, 64] ∧ getBitBytes [0, 64] 9 = 1 ∧ getBitBytes [0, 64] 8 = 0 := by
  decide

/-- `getBitBytes` / `setBitBytes` are what the bodies compute; SETBIT replies with the previous bit -/
theorem getbit_body (ctx : Ctx) (cis : List CI) (k : Nat) (off : Int) :
    Cmd.getbit ctx [.key k, .int off] cis =
      ret (.int (getBitBytes (Cmd.strGet (ciAt cis k) []) off)) cis :=
  FR.Proofs.getbit_body ctx cis k off

theorem setbit_body (ctx : Ctx) (cis : List CI) (k : Nat) (off value : Int)
    (hb : value = 0 ∨ value = 1) :
    Cmd.setbit ctx [.key k, .int off, .int value] cis =
      ret (.int (getBitBytes (Cmd.strGet (ciAt cis k) [0]) off))
        (cis.set k ((ciAt cis k).update (.str (setBitBytes (Cmd.strGet (ciAt cis k) [0]) off value)))) :=
  FR.Proofs.setbit_body_old ctx cis k off value hb

end FR.Props.C01
