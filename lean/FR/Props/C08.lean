import FR.Proofs.Runner
/-!
# C08 — a failed command changes nothing
-/
namespace FR.Props.C08
open FR

/-- On every error path (argument/type error, gate refusal, body raised) the live content of the
database is unchanged and no watch notification is sent. -/
theorem error_changes_nothing (sig : Sig) (body : Body) (ctx : Ctx) (gate : Option Err) (raw : List Bytes)
    (db : Db) (nd : NodupKeys db.dict) :
    let o := runRegular sig body ctx gate raw db
    o.failed = true → Db.purge o.db = Db.purge db ∧ o.notified = [] := by
  intro o hf
  have h := runRegular_failed sig body ctx gate raw nd hf
  exact ⟨h.1.eq, h.2⟩

/-- `failed` is set exactly when `apply` failed, a gate refused, or the body raised. -/
theorem failed_iff_error_path (sig : Sig) (body : Body) (ctx : Ctx) (gate : Option Err) (raw : List Bytes)
    (db : Db) :
    (runRegular sig body ctx gate raw db).failed = true ↔
      (∃ e, (sig.apply raw db).2 = .error e) ∨
      (∃ args cis, (sig.apply raw db).2 = .ok (.ok args cis) ∧
        (gate.isSome = true ∨ ∃ e, body ctx args cis = .error e)) :=
  runRegular_failed_iff sig body ctx gate raw db

/-- non-vacuity: APPEND to a list key fails with WRONGTYPE (and lazily deletes expired `a`) -/
example :
    let sig : Sig := ⟨"append", [.key (some .str) .unspecified, .bytes], [], false, 2, 0, false⟩
    let db : Db := ⟨[([97], ⟨.str [1], some 5⟩), ([98], ⟨.list [[2]], none⟩)], 10⟩
    let o := runRegular sig FR.Cmd.append ⟨7, 10, 0, false, []⟩ none [[98], [120]] db
    o.failed = true ∧ Db.purge o.db = Db.purge db ∧ o.notified = [] := by
  intro sig db o
  have hf : o.failed = true := by decide
  exact ⟨hf, error_changes_nothing sig _ _ _ _ db (by decide) hf⟩

end FR.Props.C08
