import FR.Proofs.PubSubHist
/-!
# C10 over histories — pub/sub: the subscription tables of every reachable state, who is subscribed as a
function of the history, what PUBLISH delivers (outside and inside MULTI), in which order, and subscriber mode

Vocabulary (all from `FR/Proofs/PubSubHist.lean`):

* `runHistory evs` is the state after the events `evs` (from the initial state); every event starts with an empty
  `Sys.out`, so the replies of a whole history are `outLog {} evs` (oldest first).
* `LegalFrom {} evs`: a new socket has a fresh identity, only a registered socket is closed, only a registered and
  not closed socket sends requests (a closed `FakeSocket` has `_server = None`) — the histories client objects produce.
* `IsOpen s c`: `c` is registered and not closed.  `s.conn c` is `c`'s connection record.
* `IsSub s q c m`: `c` is listed under channel (`q = false`) / pattern (`q = true`) `m` and is not a closed socket
  awaiting clean-up — "the client currently subscribed".
* `liveSrv s`: the tables as the next known command sees them (after `_cleanup` of the closed sockets).
* `cnt t c`: the number of entries of table `t` that list `c`.
-/
namespace FR.Props.C10s
open FR FR.M FR.PubSubHist

/-- a decidable fingerprint of a reply, one level deep (`Reply` has no `DecidableEq`); used by the concrete examples -/
def fp : Reply → List (List Int)
  | .nil => [[0]]
  | .int n => [[1, n]]
  | .bulk b => [2 :: b.map fun x => (x.toNat : Int)]
  | .status b => [3 :: b.map fun x => (x.toNat : Int)]
  | .err b => [4 :: b.map fun x => (x.toNat : Int)]
  | .arr xs => [5] :: xs.map fun x => match x with
    | .int n => [1, n]
    | .bulk b => 2 :: b.map fun y => (y.toNat : Int)
    | _ => [9]

def fps (l : List (Nat × Reply)) : List (Nat × List (List Int)) := l.map fun p => (p.1, fp p.2)

/-! ## 1. the table invariant over all histories -/

/-- In every state reached by a legal history: names are unique in each table and every subscriber list is
duplicate-free; connection ids are unique; every listed id belongs to a registered connection, which is closed only
while it is still on `closedSockets` (i.e. between `close` and the next known command); `Conn.pubsub` of every open
connection is the number of channel entries plus pattern entries listing it — "the client's current subscription
count"; and every socket on `closedSockets` is registered and closed. -/
theorem table_invariant (evs : List Ev) (hl : LegalFrom {} evs) :
    let s := runHistory evs
    (TblOK s.srv.subs ∧ TblOK s.srv.psubs) ∧
    (s.srv.conns.map (·.id)).Nodup ∧
    (∀ e, e ∈ s.srv.subs ∨ e ∈ s.srv.psubs → ∀ c ∈ e.2,
      s.HasConn c ∧ ((s.conn c).closed = true → c ∈ s.srv.closedSockets)) ∧
    (∀ c, IsOpen s c → (s.conn c).pubsub = cnt s.srv.subs c + cnt s.srv.psubs c) ∧
    (∀ c ∈ s.srv.closedSockets, s.HasConn c ∧ (s.conn c).closed = true) :=
  psinv_unpack (psinv_runHistory evs hl)

/-- the invariant is inductive: every legal event preserves it, from any state that satisfies it (all eleven kinds of
events: raw `sendall`, MULTI/EXEC — also with queued (un)subscriptions —, scripts, wake-ups, asyncio resumptions) -/
theorem table_invariant_step (s : Sys) (e : Ev) (h : PSInv s) (hl : Legal s e) : PSInv (stepEv s e) :=
  psinv_step s e h hl

/-- after a known command has run (`closedSockets` is empty) nobody listed in a table is closed -/
theorem listed_are_open_after_cleanup (evs : List Ev) (hl : LegalFrom {} evs)
    (hcl : (runHistory evs).srv.closedSockets = []) :
    ∀ e, e ∈ (runHistory evs).srv.subs ∨ e ∈ (runHistory evs).srv.psubs → ∀ c ∈ e.2, IsOpen (runHistory evs) c := by
  intro e he c hc
  obtain ⟨h1, h2⟩ := (table_invariant evs hl).2.2.1 e he c hc
  refine ⟨h1, ?_⟩
  cases hh : ((runHistory evs).conn c).closed
  · rfl
  · have := h2 hh
    rw [hcl] at this; cases this

/-- SUBSCRIBE by 7 to two channels and a pattern, by 8 to one channel; 8 closes -/
def demo : List Ev :=
  [.open 7, .open 8,
   .request {} 7 [strBytes "SUBSCRIBE", [1], [2], [1]] [5] [],
   .request {} 7 [strBytes "PSUBSCRIBE", [42]] [6] [],
   .request {} 8 [strBytes "subscribe", [1]] [7] [],
   .close 8]

example : LegalFrom {} demo ∧ (runHistory demo).srv.subs = [([1], [7, 8]), ([2], [7])] ∧
    (runHistory demo).srv.psubs = [([42], [7])] ∧ ((runHistory demo).conn 7).pubsub = 3 ∧
    (runHistory demo).srv.closedSockets = [8] := by decide +kernel

/-- **"No empty subscriber list is kept" is FALSE of the model**: (P)UNSUBSCRIBE removes an entry that becomes empty,
but the clean-up of a closed socket (and garbage collection) only empties the lists.  Witness: 7 subscribes to
channel `[1]`, closes; the next command of another client runs the clean-up: the entry `([1], [])` stays. -/
def emptyKept : List Ev :=
  [.open 7, .request {} 7 [strBytes "SUBSCRIBE", [1]] [5] [], .close 7, .open 8, .request {} 8 [strBytes "PING"] [6] []]

theorem empty_list_is_kept : LegalFrom {} emptyKept ∧ ([1], []) ∈ (runHistory emptyKept).srv.subs := by
  decide +kernel

/-- the true part: (P)SUBSCRIBE and (P)UNSUBSCRIBE themselves never leave a new empty entry -/
theorem no_new_empty_partial (t : Tbl) (n : Bytes) (c : Nat) (p : Bytes × List Nat) (he : p.2 = []) :
    (p ∈ (tblSubscribe t n c).1 → p ∈ t) ∧ (p ∈ (tblUnsubscribe t n c).1 → p ∈ t) :=
  ⟨fun hp => subscribe_no_new_empty t n c p hp he, fun hp => unsubscribe_no_new_empty t n c p hp he⟩

/-- `Conn.pubsub` of a CLOSED connection is not maintained: after the clean-up it is stale (the invariant speaks
about open connections only).  Same witness: 7 is listed nowhere but keeps the count 1. -/
theorem closed_count_is_stale :
    ((runHistory emptyKept).conn 7).pubsub = 1 ∧ cnt (runHistory emptyKept).srv.subs 7 = 0 := by decide +kernel

/-! ## 2. who is subscribed, as a function of the history -/

/-- For a history in which `c`'s own events are complete requests issued outside MULTI and no script commands
(`QuietFrom`; all OTHER connections are unconstrained), `c` is a current subscriber of channel / pattern `m` iff the
replay of `c`'s own (P)SUBSCRIBE / (P)UNSUBSCRIBE requests says so: the last request naming `m` wins, (P)UNSUBSCRIBE
without arguments drops everything of that kind, close and garbage collection drop everything. -/
theorem subscribed_iff (evs : List Ev) (c : Nat) (q : Bool) (m : Bytes) (hq : QuietFrom c {} evs) :
    IsSub (runHistory evs) q c m ↔ subscribedTo evs c q m = true :=
  isSub_runHistory evs c q m hq

/-- no event of another connection — whatever it is — changes whether `c` is subscribed to `m` -/
theorem others_cannot_change (s : Sys) (e : Ev) (q : Bool) (c : Nat) (m : Bytes) (he : evConn e ≠ some c) :
    IsSub (stepEv s e) q c m ↔ IsSub s q c m :=
  sub_step_other s e q c m he

/-- one request of `c` outside MULTI: (P)SUBSCRIBE adds exactly the named ones (duplicates do not matter),
(P)UNSUBSCRIBE drops exactly the named ones, all without names -/
theorem subscribe_request (s : Sys) (mode : Mode) (c : Nat) (fields : List Bytes) (cl : List Int) (pk)
    (p : Bool) (names : List Bytes) (hk : psKind fields = .sub p names) (htx : (s.conn c).tx = none)
    (q : Bool) (m : Bytes) :
    IsSub (stepEv s (.request mode c fields cl pk)) q c m ↔ IsSub s q c m ∨ (q = p ∧ m ∈ names) :=
  isSub_request_sub s mode c fields cl pk p names hk htx q m

theorem unsubscribe_request (s : Sys) (mode : Mode) (c : Nat) (fields : List Bytes) (cl : List Int) (pk)
    (p : Bool) (names : List Bytes) (hk : psKind fields = .unsub p names) (htx : (s.conn c).tx = none)
    (q : Bool) (m : Bytes) :
    IsSub (stepEv s (.request mode c fields cl pk)) q c m ↔
      IsSub s q c m ∧ ¬ (q = p ∧ (names = [] ∨ m ∈ names)) :=
  isSub_request_unsub s mode c fields cl pk p names hk htx q m

/-- 7 subscribes to `[1] [2]`, unsubscribes from `[1]`, 8 does things in a MULTI, 7 unsubscribes from everything and
resubscribes to `[3]` -/
def demo2 : List Ev :=
  [.open 7, .open 8,
   .request {} 7 [strBytes "SUBSCRIBE", [1], [2]] [5] [],
   .request {} 7 [strBytes "UNSUBSCRIBE", [1]] [6] [],
   .request {} 8 [strBytes "MULTI"] [7] [],
   .request {} 8 [strBytes "SET", [9], [9]] [8] [],
   .request {} 8 [strBytes "EXEC"] [9] [],
   .request {} 7 [strBytes "PING"] [10] []]

example : QuietFrom 7 {} demo2 ∧ subscribedTo demo2 7 false [2] = true ∧ subscribedTo demo2 7 false [1] = false ∧
    IsSub (runHistory demo2) false 7 [2] ∧ ¬ IsSub (runHistory demo2) false 7 [1] := by decide +kernel

example : subscribedTo (demo2 ++ [.request {} 7 [strBytes "unsubscribe"] [11] [],
      .request {} 7 [strBytes "subscribe", [3]] [12] []]) 7 false [2] = false ∧
    subscribedTo (demo2 ++ [.request {} 7 [strBytes "unsubscribe"] [11] [],
      .request {} 7 [strBytes "subscribe", [3]] [12] []]) 7 false [3] = true := by decide +kernel

/-! ## 3. PUBLISH: what is delivered to whom -/

/-- A `PUBLISH ch m` request (outside MULTI, by an open client that has no subscription) after a legal history:
the event emits exactly — oldest first — `["message", ch, m]` to every subscriber of `ch` in table order, then
`["pmessage", p, ch, m]` for every pattern `p` that matches `ch` (table order) to each of its subscribers, then the
integer reply = the number of these deliveries to the publisher.  The tables are those after the clean-up of the
closed sockets (`liveSrv`). -/
theorem publish_delivers (evs : List Ev) (hl : LegalFrom {} evs) (mode : Mode) (P : Nat) (nameB ch msg : Bytes)
    (cl : List Int) (pk : List (List Bytes)) (hname : commandName nameB = some "publish")
    (hopen : IsOpen (runHistory evs) P) (htx : ((runHistory evs).conn P).tx = none)
    (hps : ((runHistory evs).conn P).pubsub = 0) :
    let s := runHistory evs
    (stepEv s (.request mode P [nameB, ch, msg] cl pk)).out.reverse =
      ((((liveSrv s).subs.lookup ch).getD []).map (fun c => (c, chanMsg ch msg))
        ++ ((liveSrv s).psubs.filter (fun p => Glob.globMatch p.1 ch)).flatMap
            (fun p => p.2.map fun c => (c, patMsg p.1 ch msg)))
      ++ [(P, .int (deliveries (liveSrv s) ch msg).length)] :=
  publish_request_out _ (psinv_runHistory evs hl) mode P nameB ch msg cl pk hname hopen htx hps

/-- the receivers are exactly the current subscribers: of the channel (`message`), of each matching pattern
(`pmessage`, once per pattern) — to nobody else, nothing else -/
theorem publish_receivers (evs : List Ev) (hl : LegalFrom {} evs) (ch msg : Bytes) (c : Nat) (r : Reply) :
    (c, r) ∈ deliveries (liveSrv (runHistory evs)) ch msg ↔
      (IsSub (runHistory evs) false c ch ∧ r = chanMsg ch msg) ∨
      (∃ pat, Glob.globMatch pat ch = true ∧ IsSub (runHistory evs) true c pat ∧ r = patMsg pat ch msg) :=
  mem_deliveries_live _ (psinv_runHistory evs hl) ch msg c r

/-- like `demo`, without the pattern (the glob matcher does not reduce in the kernel), and a third client 9 -/
def demoP : List Ev :=
  [.open 7, .open 8,
   .request {} 7 [strBytes "SUBSCRIBE", [1], [2], [1]] [5] [],
   .request {} 8 [strBytes "subscribe", [1]] [7] [],
   .close 8, .open 9]

/-- 9 publishes on `[1]` after `demoP`: 7 gets the message; 8 is closed: nothing; the reply is 1 -/
example :
    fps (stepEv (runHistory demoP) (.request {} 9 [strBytes "PUBLISH", [1], [77]] [8] [])).out.reverse =
      fps [(7, chanMsg [1] [77]), (9, .int 1)] := by decide +kernel

example : LegalFrom {} demoP ∧ IsOpen (runHistory demoP) 9 ∧
    ((runHistory demoP).conn 9).tx = none ∧ ((runHistory demoP).conn 9).pubsub = 0 ∧
    commandName (strBytes "PUBLISH") = some "publish" := by decide +kernel

/-! ## 4. order -/

/-- Two PUBLISH requests in a legal history (any publishers, anything in between), each on a channel `S` is subscribed
to at that moment: in the log of all replies (`outLog`, oldest first) `S`'s push for the first precedes `S`'s push for
the second. -/
theorem publish_order (pre mid post : List Ev) (mode1 mode2 : Mode) (P1 P2 : Nat) (n1 ch1 m1 n2 ch2 m2 : Bytes)
    (cl1 cl2 : List Int) (pk1 pk2 : List (List Bytes)) (S : Nat)
    (hlegal : LegalFrom {} (pre ++ .request mode1 P1 [n1, ch1, m1] cl1 pk1 ::
      (mid ++ .request mode2 P2 [n2, ch2, m2] cl2 pk2 :: post)))
    (hn1 : commandName n1 = some "publish") (hn2 : commandName n2 = some "publish")
    (htx1 : ((runHistory pre).conn P1).tx = none) (hps1 : ((runHistory pre).conn P1).pubsub = 0)
    (hS1 : IsSub (runHistory pre) false S ch1)
    (htx2 : ((runHistory (pre ++ .request mode1 P1 [n1, ch1, m1] cl1 pk1 :: mid)).conn P2).tx = none)
    (hps2 : ((runHistory (pre ++ .request mode1 P1 [n1, ch1, m1] cl1 pk1 :: mid)).conn P2).pubsub = 0)
    (hS2 : IsSub (runHistory (pre ++ .request mode1 P1 [n1, ch1, m1] cl1 pk1 :: mid)) false S ch2) :
    ∃ A B C, outLog {} (pre ++ .request mode1 P1 [n1, ch1, m1] cl1 pk1 ::
        (mid ++ .request mode2 P2 [n2, ch2, m2] cl2 pk2 :: post)) =
      A ++ (S, chanMsg ch1 m1) :: (B ++ (S, chanMsg ch2 m2) :: C) :=
  FR.PubSubHist.publish_order pre mid post mode1 mode2 P1 P2 n1 ch1 m1 n2 ch2 m2 cl1 cl2 pk1 pk2 S hlegal hn1 hn2
    htx1 hps1 hS1 htx2 hps2 hS2

example :
    LegalFrom {} (demoP ++ .request {} 9 [strBytes "PUBLISH", [1], [77]] [8] [] ::
      ([] ++ .request {} 9 [strBytes "PUBLISH", [2], [78]] [9] [] :: [])) ∧
    IsSub (runHistory demoP) false 7 [1] ∧
    IsSub (runHistory (demoP ++ .request {} 9 [strBytes "PUBLISH", [1], [77]] [8] [] :: [])) false 7 [2] ∧
    ((runHistory (demoP ++ .request {} 9 [strBytes "PUBLISH", [1], [77]] [8] [] :: [])).conn 9).tx = none ∧
    ((runHistory (demoP ++ .request {} 9 [strBytes "PUBLISH", [1], [77]] [8] [] :: [])).conn 9).pubsub = 0 := by
  decide +kernel

/-- the log is the concatenation of the events' outputs: per event, oldest first -/
theorem log_is_concatenation (s : Sys) (evs1 evs2 : List Ev) :
    outLog s (evs1 ++ evs2) = outLog s evs1 ++ outLog (evs1.foldl stepEv s) evs2 :=
  outLog_append s evs1 evs2

example : fps (((outLog {} (demoP ++ [.request {} 9 [strBytes "PUBLISH", [1], [77]] [8] [],
      .request {} 9 [strBytes "PUBLISH", [2], [78]] [9] []])).filter (fun x => x.1 == 7)).drop 3) =
    fps [(7, chanMsg [1] [77]), (7, chanMsg [2] [78])] := by
  decide +kernel

/-! ## 5. PUBLISH inside MULTI is delivered at EXEC -/

/-- at queue time nothing reaches a subscriber: the only reply is `QUEUED` to the caller, the tables are only
cleaned up -/
theorem publish_in_multi_is_queued (s : Sys) (mode : Mode) (c : Nat) (nameB ch msg : Bytes) (cl : List Int) (pk)
    (q : List (String × List Bytes)) (hname : commandName nameB = some "publish") (htx : (s.conn c).tx = some q) :
    let s' := stepEv s (.request mode c [nameB, ch, msg] cl pk)
    s'.out = (if (s.conn c).closed then [] else [(c, Reply.queued)]) ∧
    s'.srv.subs = (liveSrv s).subs ∧ s'.srv.psubs = (liveSrv s).psubs :=
  publish_queued_out s mode c nameB ch msg cl pk q hname htx

/-- at EXEC (queue of PUBLISH commands, not aborted, no touched watch) the deliveries appear, in queue order,
followed by the array of the counts -/
theorem exec_delivers_queued_publishes (evs : List Ev) (hl : LegalFrom {} evs) (mode : Mode) (c : Nat) (nameB : Bytes)
    (pubs : List (Bytes × Bytes)) (cl : List Int) (pk : List (List Bytes))
    (hname : commandName nameB = some "exec") (hopen : IsOpen (runHistory evs) c)
    (htx : ((runHistory evs).conn c).tx = some (pubQueue pubs)) (hf : ((runHistory evs).conn c).txFailed = false)
    (hw : ((runHistory evs).conn c).watchNotified = false) (hps : ((runHistory evs).conn c).pubsub = 0) :
    (stepEv (runHistory evs) (.request mode c [nameB] cl pk)).out.reverse =
      (pubs.flatMap fun p => deliveries (liveSrv (runHistory evs)) p.1 p.2) ++
        [(c, .arr (pubs.map fun p => .int (deliveries (liveSrv (runHistory evs)) p.1 p.2).length))] :=
  exec_publishes_out _ (psinv_runHistory evs hl) mode c nameB pubs cl pk hname hopen htx hf hw hps

def demo5 : List Ev :=
  demoP ++ [.request {} 9 [strBytes "MULTI"] [8] [],
    .request {} 9 [strBytes "PUBLISH", [2], [77]] [9] [], .request {} 9 [strBytes "PUBLISH", [1], [78]] [10] []]

example : fps (runHistory demo5).out = fps [(9, Reply.queued)] ∧
    ((runHistory demo5).conn 9).tx = some (pubQueue [([2], [77]), ([1], [78])]) ∧
    ((runHistory demo5).conn 9).txFailed = false ∧ ((runHistory demo5).conn 9).watchNotified = false ∧
    fps (stepEv (runHistory demo5) (.request {} 9 [strBytes "EXEC"] [11] [])).out.reverse =
      fps [(7, chanMsg [2] [77]), (7, chanMsg [1] [78]), (9, .arr [.int 1, .int 1])] := by decide +kernel

/-- KF-1, fixed: (P)SUBSCRIBE inside MULTI is refused at queue time ("Command not allowed inside a transaction"),
so it never reaches EXEC: EXEC answers EXECABORT, nothing crashes, the connection is alive and in normal mode, and
no subscription has been made.  (Before the fix this history ended with `crashed = some "AssertionError"`, the
connection dead and the subscription made; the theorems above exclude it by asking for a queue of PUBLISH commands /
`QuietFrom`, which remains sound.) -/
example :
    let s := runHistory [.open 7, .request {} 7 [strBytes "MULTI"] [5] [],
      .request {} 7 [strBytes "SUBSCRIBE", [1]] [6] [], .request {} 7 [strBytes "EXEC"] [7] []]
    s.crashed = none ∧ s.fault = none ∧ (s.conn 7).dead = false ∧ (s.conn 7).tx = none ∧ (s.conn 7).pubsub = 0 ∧
      s.srv.subs = [] ∧ fps s.out = fps [(7, .err (strBytes Msgs.EXECABORT_MSG))] := by decide +kernel

/-! ## 6. subscriber mode -/

/-- While `Conn.pubsub > 0`, a request (outside MULTI, right number of arguments) for a command other than
(P)SUBSCRIBE / (P)UNSUBSCRIBE / PING / QUIT is answered with the fixed error, and neither the conversion of the
arguments (`Signature.apply`) nor the body runs: the state is the one after the clean-up and clock refresh that
precede every known command, plus the reply. -/
theorem subscriber_mode_refuses (mode : Mode) (c : Nat) (nameB : Bytes) (args : List Bytes) (s : Sys) (sig : Sig)
    (hsig : lookupSig nameB = some sig) (har : sig.checkArity args.length = true) (htx : (s.conn c).tx = none)
    (hps : (s.conn c).pubsub > 0) (hna : sig.name ∉ SigTable.pubsubAllowed) :
    processCommand mode c (nameB :: args) s =
      ((), finish c ((prep s).emitS c (.err (strBytes Msgs.BAD_COMMAND_IN_PUBSUB_MSG)))) :=
  process_gated mode c nameB args s sig hsig har htx hps hna

/-- … and changes nothing else: the final state is literally the state after the clean-up and the clock refresh plus
the reply; in particular the whole server record — tables, connection records, ALL databases (no lazy expiry in the
selected one either) — is the one after the clean-up -/
theorem subscriber_mode_changes_nothing (mode : Mode) (c : Nat) (nameB : Bytes) (args : List Bytes) (s : Sys) (sig : Sig)
    (hsig : lookupSig nameB = some sig) (har : sig.checkArity args.length = true) (htx : (s.conn c).tx = none)
    (hps : (s.conn c).pubsub > 0) (hna : sig.name ∉ SigTable.pubsubAllowed) (hcr : s.crashed = none) :
    let s' := (processCommand mode c (nameB :: args) s).2
    s' = (prep s).emitS c (.err (strBytes Msgs.BAD_COMMAND_IN_PUBSUB_MSG)) ∧
    s'.srv = (prep s).srv ∧
    s'.out = (if (s.conn c).closed then s.out else (c, .err (strBytes Msgs.BAD_COMMAND_IN_PUBSUB_MSG)) :: s.out) :=
  process_gated_frame mode c nameB args s sig hsig har htx hps hna hcr

/-- `_run_command` itself, in any state: for a subscribed connection and a command outside the allow-list the reply is
the context error and the state is returned as it is — whatever the arguments `raw` are (too few or too many, not
convertible, keys missing, expired or of the wrong type), from a script or not, for regular, special and script
commands alike -/
theorem run_command_refuses_first (mode : Mode) (c : Nat) (sig : Sig) (raw : List Bytes) (fromScript : Bool) (s1 : Sys)
    (hps : (s1.conn c).pubsub > 0) (hna : sig.name ∉ SigTable.pubsubAllowed) :
    runCommand mode c sig raw fromScript s1 = (some (.err (strBytes Msgs.BAD_COMMAND_IN_PUBSUB_MSG)), s1) ∧
    (∀ special, runWith special mode c sig raw fromScript s1 =
      (some (.err (strBytes Msgs.BAD_COMMAND_IN_PUBSUB_MSG)), s1)) :=
  ⟨runCommand_refused mode c sig raw fromScript (Sys.refuses_eq_true.2 ⟨hps, hna⟩),
   fun special => runWith_refused special mode c sig raw fromScript (Sys.refuses_eq_true.2 ⟨hps, hna⟩)⟩

/-- **The subscriber-mode check comes before the arguments** (repair of KF-2).  A request of a subscribed connection
(outside MULTI, right number of arguments) for a command outside the allow-list: the reply is the context error, and the
state is LITERALLY unchanged apart from what `_process_command` does before `_run_command` (clean-up of the closed
sockets, clock refresh: `prep s`).  No argument error takes precedence, no missing-key short-cut (`LINDEX nokey 0`
used to answer nil), no lazy expiry of the keys named by the request: `_run_command`, started in `prep s`, hands back
`prep s` itself for ANY argument list. -/
theorem subscriber_gate_before_arguments (mode : Mode) (c : Nat) (nameB : Bytes) (args : List Bytes) (s : Sys) (sig : Sig)
    (hsig : lookupSig nameB = some sig) (har : sig.checkArity args.length = true) (htx : (s.conn c).tx = none)
    (hps : (s.conn c).pubsub > 0) (hna : sig.name ∉ SigTable.pubsubAllowed) :
    -- `_run_command` in the state after the prologue: the error, the state as it was, whatever the arguments
    (∀ raw fromScript, runCommand mode c sig raw fromScript (prep s) =
      (some (.err (strBytes Msgs.BAD_COMMAND_IN_PUBSUB_MSG)), prep s)) ∧
    -- the whole request
    processCommand mode c (nameB :: args) s =
      ((), finish c ((prep s).emitS c (.err (strBytes Msgs.BAD_COMMAND_IN_PUBSUB_MSG)))) ∧
    -- unless the model had already recorded a crash: the final state is `prep s` plus the reply, nothing else
    (s.crashed = none →
      (processCommand mode c (nameB :: args) s).2 = (prep s).emitS c (.err (strBytes Msgs.BAD_COMMAND_IN_PUBSUB_MSG)) ∧
      (processCommand mode c (nameB :: args) s).2.srv.dbs = (prep s).srv.dbs ∧
      (processCommand mode c (nameB :: args) s).2.out =
        (if (s.conn c).closed then s.out else (c, .err (strBytes Msgs.BAD_COMMAND_IN_PUBSUB_MSG)) :: s.out)) := by
  have hps' : ((prep s).conn c).pubsub > 0 := by rw [prep_pubsub]; exact hps
  refine ⟨fun raw fs => (run_command_refuses_first mode c sig raw fs (prep s) hps' hna).1,
    process_gated mode c nameB args s sig hsig har htx hps hna, fun hcr => ?_⟩
  obtain ⟨h1, h2, h3⟩ := process_gated_frame mode c nameB args s sig hsig har htx hps hna hcr
  exact ⟨h1, by rw [h2], h3⟩

/-- PUBLISH itself is refused in subscriber mode, nothing is delivered -/
theorem publish_refused_when_subscribed (mode : Mode) (c : Nat) (nameB ch msg : Bytes) (s : Sys)
    (hname : commandName nameB = some "publish") (htx : (s.conn c).tx = none) (hps : (s.conn c).pubsub > 0) :
    processCommand mode c [nameB, ch, msg] s =
      ((), finish c ((prep s).emitS c (.err (strBytes Msgs.BAD_COMMAND_IN_PUBSUB_MSG)))) :=
  process_publish_gated mode c nameB ch msg s hname htx hps

/-- 7 (subscribed) tries SET, GET and PUBLISH: the fixed error each time, no key is written, nothing is delivered;
PING is allowed -/
example :
    fps (stepEv (runHistory demo) (.request {} 7 [strBytes "SET", [9], [9]] [8] [])).out =
      fps [(7, .err (strBytes Msgs.BAD_COMMAND_IN_PUBSUB_MSG))] ∧
    (stepEv (runHistory demo) (.request {} 7 [strBytes "SET", [9], [9]] [8] [])).srv.dbs.all (·.isEmpty) = true ∧
    fps (stepEv (runHistory demo) (.request {} 7 [strBytes "PUBLISH", [1], [9]] [8] [])).out =
      fps [(7, .err (strBytes Msgs.BAD_COMMAND_IN_PUBSUB_MSG))] ∧
    fps (stepEv (runHistory demo) (.request {} 7 [strBytes "PING"] [8] [])).out =
      fps [(7, .arr [.bulk (strBytes "pong"), .bulk []])] := by decide +kernel

example : (lookupSig (strBytes "SET")).any (fun sig => sig.checkArity 2 && !SigTable.pubsubAllowed.contains sig.name) = true ∧
    ((runHistory demo).conn 7).tx = none ∧ ((runHistory demo).conn 7).pubsub > 0 := by decide +kernel

/-- 7 stores `k` with a deadline and subscribes; later (the deadline of `k` has passed) it tries commands whose
arguments used to be looked at first -/
def demoGate : List Ev :=
  [.open 7,
   .request {} 7 [strBytes "SET", [107], [118], strBytes "PX", strBytes "1"] [5] [],
   .request {} 7 [strBytes "SUBSCRIBE", [1]] [6] []]

/-- non-vacuity of `subscriber_gate_before_arguments`, and its content on a concrete history: in subscriber mode
* `LINDEX nokey 0` (missing key: the `missing_return` short-cut used to answer nil) ⇒ the context error;
* `INCRBY k x` (`x` is not an integer: the conversion error used to come first) ⇒ the context error;
* `GET k` with `k` expired ⇒ the context error, and the expired entry is still stored (no lazy expiry): the
  databases are exactly those before the request. -/
example :
    (lookupSig (strBytes "LINDEX")).any (fun sig => sig.checkArity 2 && !SigTable.pubsubAllowed.contains sig.name) = true ∧
    ((runHistory demoGate).conn 7).tx = none ∧ ((runHistory demoGate).conn 7).pubsub > 0 ∧
    (runHistory demoGate).crashed = none ∧
    fps (stepEv (runHistory demoGate) (.request {} 7 [strBytes "LINDEX", strBytes "nokey", strBytes "0"] [20000] [])).out =
      fps [(7, .err (strBytes Msgs.BAD_COMMAND_IN_PUBSUB_MSG))] ∧
    fps (stepEv (runHistory demoGate) (.request {} 7 [strBytes "INCRBY", [107], strBytes "x"] [20000] [])).out =
      fps [(7, .err (strBytes Msgs.BAD_COMMAND_IN_PUBSUB_MSG))] ∧
    fps (stepEv (runHistory demoGate) (.request {} 7 [strBytes "GET", [107]] [20000] [])).out =
      fps [(7, .err (strBytes Msgs.BAD_COMMAND_IN_PUBSUB_MSG))] ∧
    (stepEv (runHistory demoGate) (.request {} 7 [strBytes "GET", [107]] [20000] [])).srv.time = 20000 ∧
    ((stepEv (runHistory demoGate) (.request {} 7 [strBytes "GET", [107]] [20000] [])).srv.dbs.map
        (·.map fun p => (p.1, p.2.expireat))) =
      ((runHistory demoGate).srv.dbs.map (·.map fun p => (p.1, p.2.expireat))) ∧
    ((runHistory demoGate).srv.dbs.map (·.map fun p => (p.1, p.2.expireat))).take 1 = [[([107], some 10005)]] := by
  decide +kernel

end FR.Props.C10s
