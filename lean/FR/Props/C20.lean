import FR.Proofs.AsyncLife
/-!
# C20 — connection life-cycle: outage, close, garbage collection

`s.conn c` abbreviates `(M.getConn c s).1`; `s.HasConn c` says a connection with id `c` is registered;
`tblMembers t name = (t.lookup name).getD []`.
-/
namespace FR.Props.C20
open FR FR.M

/-! ## 8. outage: every write raises `ConnectionError` and has no effect -/

theorem outage_no_effect (mode : Mode) (c : Nat) (data : Bytes) (s : Sys) (h : s.srv.connected = false) :
    (sendallGuarded mode c data).run s = ((), { s with crashed := some "ConnectionError" }) :=
  sendallGuarded_run_down mode c data s h

/-! ## 9. reconnecting restores the server as it was -/

theorem reconnect_restores (s : Sys) :
    let down : Sys := { s with srv := { s.srv with connected := false } }
    let up : Sys := { down with srv := { down.srv with connected := true } }
    up.srv.dbs = s.srv.dbs ∧ up.srv.scripts = s.srv.scripts ∧ up.srv.subs = s.srv.subs ∧
    up.srv.psubs = s.srv.psubs ∧ up.srv.conns = s.srv.conns ∧ up.srv.time = s.srv.time ∧
    up.srv.closedSockets = s.srv.closedSockets ∧ up.out = s.out ∧
    (s.srv.connected = true → up = s) ∧
    (∀ mode c data, (sendallGuarded mode c data).run up = (sendall mode c data).run up) := by
  refine ⟨rfl, rfl, rfl, rfl, rfl, rfl, rfl, rfl, ?_, ?_⟩
  · intro h
    obtain ⟨⟨_, _, _, _, _, _, _, _, _, _⟩, _, _, _, _, _⟩ := s
    simp only at h
    subst h
    rfl
  · intro mode c data
    exact sendallGuarded_run_up mode c data _ rfl

theorem connected_sendall (mode : Mode) (c : Nat) (data : Bytes) (s : Sys) (h : s.srv.connected = true) :
    (sendallGuarded mode c data).run s = (sendall mode c data).run s :=
  sendallGuarded_run_up mode c data s h

/-! ## 10. a closed socket is forgotten by the next processed command of any client -/

/-- after `closeConn c` and the `cleanupClosed` that the next command of ANY client runs first -/
theorem closed_socket_forgotten (s : Sys) (c : Nat) :
    let s' := (cleanupClosed (closeConn c s).2).2
    (∀ p ∈ s'.srv.subs, c ∉ p.2) ∧ (∀ p ∈ s'.srv.psubs, c ∉ p.2) ∧
    (s'.conn c).watches = [] ∧ (s'.conn c).watchNotified = false ∧ s'.srv.closedSockets = [] ∧
    (∀ ch msg r, (c, r) ∉ deliveries s'.srv ch msg) := by
  intro s'
  have hmem : c ∈ (closeConn c s).2.srv.closedSockets := by
    show c ∈ s.srv.closedSockets ++ [c]
    simp
  obtain ⟨h1, h2, h3, h4, h5⟩ := cleanupClosed_forgets (closeConn c s).2 c hmem
  exact ⟨h1, h2, h3, h4, h5, fun ch msg r => not_mem_deliveries_of_forgotten _ c h1 h2 ch msg r⟩

/-- the same for any socket that sits on `closedSockets` when the clean-up runs -/
theorem cleanup_forgets_closed (s : Sys) (c : Nat) (hc : c ∈ s.srv.closedSockets) :
    let s' := (cleanupClosed s).2
    (∀ p ∈ s'.srv.subs, c ∉ p.2) ∧ (∀ p ∈ s'.srv.psubs, c ∉ p.2) ∧
    (s'.conn c).watches = [] ∧ (s'.conn c).watchNotified = false ∧ s'.srv.closedSockets = [] ∧
    (∀ ch msg r, (c, r) ∉ deliveries s'.srv ch msg) := by
  intro s'
  obtain ⟨h1, h2, h3, h4, h5⟩ := cleanupClosed_forgets s c hc
  exact ⟨h1, h2, h3, h4, h5, fun ch msg r => not_mem_deliveries_of_forgotten _ c h1 h2 ch msg r⟩

/-- the closed connection stays closed through the clean-up -/
theorem closed_stays_closed (s : Sys) (c : Nat) (hc : s.HasConn c) :
    ((cleanupClosed (closeConn c s).2).2.conn c).closed = true := by
  have h0 : ((closeConn c s).2.conn c).closed = true := by
    rw [closeConn_run]
    exact congrArg Conn.closed (Sys.conn_updConn_same (s := { s with srv := { s.srv with closedSockets := s.srv.closedSockets ++ [c] } })
      (fun x => { x with closed := true }) hc (fun _ => rfl))
  rcases cleanupClosed_conn_any (closeConn c s).2 c with h | h <;> rw [h] <;> exact h0

/-- a reply for a closed connection is dropped: its requests are never answered -/
theorem closed_emits_nothing (c : Nat) (r : Reply) (s : Sys) (h : (s.conn c).closed = true) :
    (emit c r).run s = ((), s) :=
  emit_closed c r s h

/-- PUBLISH after the clean-up: the count is the number of remaining receivers and none of them is `c` -/
theorem publish_skips_forgotten (s : Sys) (c : Nat) (ch msg : Bytes) :
    let s' := (cleanupClosed (closeConn c s).2).2
    (publish ch msg s').1 = (deliveries s'.srv ch msg).length ∧ ∀ d ∈ deliveries s'.srv ch msg, d.1 ≠ c := by
  intro s'
  refine ⟨by rw [publish_run], ?_⟩
  rintro ⟨c', r⟩ hd rfl
  exact (closed_socket_forgotten s c').2.2.2.2.2 ch msg r hd

/-- EXEC of another connection `c'` neither reads nor changes the MULTI queue of `c` (so the queue of a closed
connection is never run): replacing that queue by `q` beforehand changes nothing but that queue.  `BlindAt c inner sig args`
is the same statement for one nested command; it is proved for the regular commands (`runInner_regular_blind`) and is a
hypothesis for the special ones. -/
theorem other_exec_ignores_queue (inner : Inner) (c c' : Nat) (hne : c' ≠ c) (cis : List CI)
    (q : Option (List (String × List Bytes))) (s : Sys)
    (hb : ∀ l, (s.conn c').tx = some l → ∀ a ∈ l, ∀ sig, SigTable.find a.1 = some sig → BlindAt c inner sig a.2) :
    (execCmd inner c' cis).run (s.withTx c q) =
      (((execCmd inner c' cis).run s).1, ((execCmd inner c' cis).run s).2.withTx c q) :=
  execCmd_withTx inner c c' hne cis q s hb

/-- instance: the queue of `c'` holds regular commands (pure functions of the selected database) only -/
theorem other_exec_ignores_queue_regular (mode : Mode) (c c' : Nat) (hne : c' ≠ c) (cis : List CI)
    (q : Option (List (String × List Bytes))) (s : Sys)
    (hreg : ∀ l, (s.conn c').tx = some l → ∀ a ∈ l, ∀ sig, SigTable.find a.1 = some sig →
      (Cmd.regular sig.name).isSome = true) :
    (execCmd (runInner mode c') c' cis).run (s.withTx c q) =
      (((execCmd (runInner mode c') c' cis).run s).1, ((execCmd (runInner mode c') c' cis).run s).2.withTx c q) := by
  apply execCmd_withTx (runInner mode c') c c' hne cis q s
  intro l hl a ha sig hsig
  have h := hreg l hl a ha sig hsig
  cases hbody : Cmd.regular sig.name with
  | none => rw [hbody] at h; cases h
  | some body => exact runInner_regular_blind mode c c' hne sig a.2 hbody

/-! ## 11. garbage collection = close + clean-up, on the subscription tables -/

theorem gc_equivalent_to_close (s : Sys) (c : Nat) (h : s.srv.closedSockets = []) :
    (gcConn c s).2.srv.subs = (cleanupClosed (closeConn c s).2).2.srv.subs ∧
    (gcConn c s).2.srv.psubs = (cleanupClosed (closeConn c s).2).2.srv.psubs ∧
    (gcConn c s).2.srv.closedSockets = (cleanupClosed (closeConn c s).2).2.srv.closedSockets ∧
    (gcConn c s).2.srv.dbs = (cleanupClosed (closeConn c s).2).2.srv.dbs ∧
    ¬ (gcConn c s).2.HasConn c ∧
    (∀ c', c' ≠ c → (gcConn c s).2.conn c' = (cleanupClosed (closeConn c s).2).2.conn c') := by
  have hcs : (closeConn c s).2.srv.closedSockets = [c] := by
    show s.srv.closedSockets ++ [c] = [c]
    rw [h]; rfl
  refine ⟨?_, ?_, ?_, ?_, gcConn_not_hasConn c s, ?_⟩
  · rw [cleanupClosed_subs, hcs, stripAll_singleton]; rfl
  · rw [cleanupClosed_psubs, hcs, stripAll_singleton]; rfl
  · rw [cleanupClosed_run, gcConn_run]
    show s.srv.closedSockets.filter (· != c) = []
    rw [h]; rfl
  · rw [cleanupClosed_run, gcConn_run]
    generalize (closeConn c s).2.srv.closedSockets = l
    show s.srv.dbs = (l.foldl Sys.forget (closeConn c s).2).srv.dbs
    have : ∀ (l : List Nat) (t : Sys), (l.foldl Sys.forget t).srv.dbs = t.srv.dbs := by
      intro l
      induction l with
      | nil => intro t; rfl
      | cons a as ih => intro t; rw [List.foldl_cons, ih]; rfl
    rw [this]; rfl
  · intro c' hne
    rw [gcConn_conn_other c c' s hne, cleanupClosed_conn_other]
    · rw [closeConn_run]
      exact (Sys.conn_updConn_ne (s := { s with srv := { s.srv with closedSockets := s.srv.closedSockets ++ [c] } })
        (fun x => { x with closed := true }) hne (fun _ => rfl)).symm
    · rw [hcs]; simpa using hne

/-! ## 12. the clean-up leaves the other connections alone -/

theorem cleanup_idempotent_for_others (s : Sys) (c : Nat) (hc : c ∉ s.srv.closedSockets) :
    let s' := (cleanupClosed s).2
    (∀ name, c ∈ tblMembers s'.srv.subs name ↔ c ∈ tblMembers s.srv.subs name) ∧
    (∀ pat, c ∈ tblMembers s'.srv.psubs pat ↔ c ∈ tblMembers s.srv.psubs pat) ∧
    (∀ ch msg r, (c, r) ∈ deliveries s'.srv ch msg ↔ (c, r) ∈ deliveries s.srv ch msg) ∧
    s'.conn c = s.conn c ∧ (s'.HasConn c ↔ s.HasConn c) ∧
    (∀ c', (s'.conn c').tx = (s.conn c').tx) := by
  intro s'
  refine ⟨?_, ?_, ?_, cleanupClosed_conn_other s c hc, cleanupClosed_hasConn s c, ?_⟩
  · intro name
    show c ∈ tblMembers (cleanupClosed s).2.srv.subs name ↔ _
    rw [cleanupClosed_subs]; exact mem_tblMembers_stripAll _ _ _ _ hc
  · intro pat
    show c ∈ tblMembers (cleanupClosed s).2.srv.psubs pat ↔ _
    rw [cleanupClosed_psubs]; exact mem_tblMembers_stripAll _ _ _ _ hc
  · intro ch msg r
    exact mem_deliveries_stripAll s.srv _ _ (cleanupClosed_subs s) (cleanupClosed_psubs s) c hc ch msg r
  · intro c'
    rcases cleanupClosed_conn_any s c' with h | h <;> rw [h] <;> rfl

/-- the clean-up is idempotent -/
theorem cleanup_idempotent (s : Sys) : cleanupClosed (cleanupClosed s).2 = ((), (cleanupClosed s).2) :=
  cleanupClosed_run_nil (by rw [cleanupClosed_run]; rfl)

/-! ## non-vacuity -/

/-- connection 1 subscribed to channel `[99]` and pattern `[42]`, watching a key; connection 2 subscribed to `[99]` -/
def c1 : Conn := { id := 1, pubsub := 2, watches := [(0, [7])], watchNotified := true }
def srv0 : Server := { subs := [([99], [1, 2])], psubs := [([42], [1])], conns := [c1, { id := 2, pubsub := 1 }] }
def s0 : Sys := { srv := srv0 }

example : (chanDeliveries s0.srv [99] [5]).map Prod.fst = [1, 2] := by decide
example : (chanDeliveries (cleanupClosed (closeConn 1 s0).2).2.srv [99] [5]).map Prod.fst = [2] := by decide
example : (cleanupClosed (closeConn 1 s0).2).2.srv.psubs = [([42], [])] := by decide
example : (gcConn 1 s0).2.srv.subs = [([99], [2])] ∧ (gcConn 1 s0).2.srv.psubs = [([42], [])] := by decide
example : ((cleanupClosed (closeConn 1 s0).2).2.conn 1).watches = [] ∧
    ((cleanupClosed (closeConn 1 s0).2).2.conn 1).closed = true ∧
    ((closeConn 1 s0).2.conn 1).watches = [(0, [7])] ∧ (closeConn 1 s0).2.srv.closedSockets = [1] := by decide
example : ∃ sig body, SigTable.find "get" = some sig ∧ Cmd.regular sig.name = some body := ⟨_, _, rfl, rfl⟩
example : ((s0.withTx 1 (some [("get", [[7]])])).conn 1).tx = some [("get", [[7]])] ∧
    ((s0.withTx 1 (some [("get", [[7]])])).conn 2).tx = none := by decide
example : ((sendallGuarded {} 1 [1, 2, 3]).run { s0 with srv := { s0.srv with connected := false } }).2.crashed
    = some "ConnectionError" := rfl

end FR.Props.C20
