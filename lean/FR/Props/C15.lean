import FR.Proofs.Scan
/-! # C15 — SCAN family: final theorems -/
namespace FR.Props.C15
open FR FR.Cmd FR.Spec FR.Proofs

/-- following the cursors from 0 until 0 comes back yields every matching element exactly once,
in order, and nothing else -/
theorem scan_complete {α} (elems : List α) (keyOf : α → Bytes) (typeName : Bytes → Bytes)
    (o : ScanOpts) (hc : 0 < o.count) :
    scanAll elems keyOf typeName o (elems.length + 1) 0
      = elems.filter (matchPredicate keyOf typeName o) :=
  FR.Proofs.scan_complete elems keyOf typeName o hc

/-- without MATCH / TYPE the filter is the identity -/
theorem scan_complete_nofilter {α} (elems : List α) (keyOf : α → Bytes) (typeName : Bytes → Bytes)
    (o : ScanOpts) (hc : 0 < o.count) (hp : o.pattern = none) (ht : o.ty = none) :
    scanAll elems keyOf typeName o (elems.length + 1) 0 = elems :=
  FR.Proofs.scan_complete_nofilter elems keyOf typeName o hc hp ht
example : scanAll [[1], [2], [3], [4], [5]] id (fun _ => []) { count := 2 } 6 0
    = [[1], [2], [3], [4], [5]] := by decide

/-- the iteration reaches cursor 0 within the fuel, after exactly `scanCalls len count` calls, the
`j`-th of which is made with cursor `j * count` -/
theorem scan_terminates {α} (elems : List α) (keyOf : α → Bytes) (typeName : Bytes → Bytes)
    (o : ScanOpts) (hc : 0 < o.count) :
    scanTrace elems keyOf typeName o (elems.length + 1) 0 =
      (List.range (scanCalls elems.length o.count.toNat)).map (fun j => ((j * o.count.toNat : Nat) : Int)) ∧
    scanFinished elems keyOf typeName o (elems.length + 1) 0 = true :=
  FR.Proofs.scan_terminates elems keyOf typeName o hc

/-- `scanCalls len cnt = max 1 ⌈len / cnt⌉` -/
theorem scanCalls_spec (len cnt : Nat) (hc : 0 < cnt) :
    scanCalls len cnt = max 1 ((len + cnt - 1) / cnt) ∧
    1 ≤ scanCalls len cnt ∧ len ≤ scanCalls len cnt * cnt ∧
    (1 < scanCalls len cnt → (scanCalls len cnt - 1) * cnt < len) :=
  ⟨rfl, FR.Proofs.scanCalls_spec len cnt hc⟩
example : scanTrace [[1], [2], [3], [4], [5]] id (fun _ => []) { count := 2 } 6 0 = [0, 2, 4] ∧
    scanCalls 5 2 = 3 ∧ scanCalls 0 10 = 1 ∧ scanCalls 4 2 = 2 := by decide

/-- error cases of `_scan` -/
theorem scan_errors {α} (elems : List α) keyOf typeName allowType (cursor : Int) opts render :
    (cursor < 0 →
      scanReply elems keyOf typeName allowType cursor opts render = .error Msgs.INVALID_CURSOR_MSG) ∧
    (0 ≤ cursor → opts.length % 2 = 1 →
      scanReply elems keyOf typeName allowType cursor opts render = .error Msgs.SYNTAX_ERROR_MSG) ∧
    (∀ pre a v rest, opts = pre ++ a :: v :: rest → 0 ≤ cursor → rest.length % 2 = 0 →
      pre.length % 2 = 0 → allPairsOk allowType pre = true → optPairOk allowType a v = false →
      scanReply elems keyOf typeName allowType cursor opts render = .error (optPairErr a v)) ∧
    ((∃ e, scanReply elems keyOf typeName allowType cursor opts render = .error e) ↔
      (cursor < 0 ∨ opts.length % 2 = 1 ∨ allPairsOk allowType opts = false)) :=
  ⟨scan_errors_cursor elems keyOf typeName allowType cursor opts render,
   scan_errors_odd elems keyOf typeName allowType cursor opts render,
   fun pre a v rest e hc hr hp hok hbad =>
     e ▸ scan_errors_bad_option elems keyOf typeName allowType cursor pre a v rest render hc hr hp hok hbad,
   scan_errors_iff elems keyOf typeName allowType cursor opts render⟩

/-- what a bad option pair is, and the message it produces -/
theorem scan_bad_pair (allowType : Bool) (a v : Bytes) :
    (optPairOk allowType a v = true ↔
      (casematch a "match" = true ∨
       (casematch a "match" = false ∧ casematch a "count" = true ∧ ∃ c, Conv.int v = .ok c ∧ 0 < c) ∨
       (casematch a "match" = false ∧ casematch a "count" = false ∧ casematch a "type" = true ∧
         allowType = true))) ∧
    (casematch a "count" = true → ∀ e, Conv.int v = .error e → optPairErr a v = e) ∧
    (casematch a "count" = true → ∀ c, Conv.int v = .ok c → optPairErr a v = Msgs.SYNTAX_ERROR_MSG) ∧
    (casematch a "count" = false → optPairErr a v = Msgs.SYNTAX_ERROR_MSG) :=
  FR.Proofs.scan_bad_pair allowType a v
example : optPairOk false [67, 79, 85, 78, 84] [48] = false ∧          -- COUNT 0
    optPairOk false [67, 79, 85, 78, 84] [120] = false ∧                -- COUNT x
    optPairOk false [116, 121, 112, 101] [120] = false ∧                -- type x (not allowed)
    optPairOk true [116, 121, 112, 101] [120] = true ∧                  -- type x (allowed)
    optPairOk true [102, 111, 111] [120] = false := by with_unfolding_all decide  -- foo x

/-- scanning an empty / missing collection with valid options -/
theorem scan_missing_empty {α} keyOf typeName allowType (cursor : Int) opts render
    (hc : 0 ≤ cursor) (hl : opts.length % 2 = 0) (hok : allPairsOk allowType opts = true) :
    scanReply ([] : List α) keyOf typeName allowType cursor opts render
      = .ok (.arr [.bulk (intBytes 0), .arr []]) :=
  FR.Proofs.scan_missing_empty keyOf typeName allowType cursor opts render hc hl hok
example : allPairsOk false [[67, 79, 85, 78, 84], [53]] = true := by with_unfolding_all decide

/-- for a cursor inside the collection one `_scan` call is one `scanPage` (the unit `scanAll` iterates) -/
theorem scan_reply_is_page {α} (elems : List α) keyOf typeName allowType (cursor : Int) opts render
    (o : ScanOpts) (hc : 0 ≤ cursor) (hlt : cursor < elems.length)
    (hp : parseScanOpts allowType opts {} = .ok o) :
    scanReply elems keyOf typeName allowType cursor opts render =
      .ok (.arr [.bulk (intBytes (scanPage elems keyOf typeName cursor o).1),
                 .arr (render (scanPage elems keyOf typeName cursor o).2)]) :=
  FR.Proofs.scanReply_page elems keyOf typeName allowType cursor opts render o hc hlt hp

end FR.Props.C15
