import FR.Prelude.Bytes
/-!
# Model of `compile_pattern` (`_helpers.py`): glob → atoms, and the matching semantics of the
regex fragment it emits (`re.S`, bytes, anchored with `^ … \Z`).
-/
namespace FR.Glob

abbrev B := List UInt8
def cStar : UInt8 := 42
def cQ : UInt8 := 63
def cLB : UInt8 := 91
def cRB : UInt8 := 93
def cBS : UInt8 := 92
def cCaret : UInt8 := 94
def cDash : UInt8 := 45

inductive CItem where | ch (c : UInt8) | range (lo hi : UInt8) deriving Repr, DecidableEq
inductive Atom where | any | star | lit (c : UInt8) | cls (neg : Bool) (items : List CItem) | never
  deriving Repr, DecidableEq

def CItem.matches (c : UInt8) : CItem → Bool
  | .ch x => x == c
  | .range lo hi => lo ≤ c && c ≤ hi

/-- the inner `while` of the `[` case: class items and the rest of the pattern -/
def scanClass : B → List CItem × B
  | [] => ([], [])
  | [a] => if a == cRB then ([], []) else ([.ch a], [])
  | a :: x :: rest =>
    if a == cBS then let r := scanClass rest; (.ch x :: r.1, r.2)
    else if a == cRB then ([], x :: rest)
    else match rest with
      | b :: rest' =>
        if x == cDash then let r := scanClass rest'; (.range (min a b) (max a b) :: r.1, r.2)
        else let r := scanClass (x :: b :: rest'); (.ch a :: r.1, r.2)
      | [] => let r := scanClass [x]; (.ch a :: r.1, r.2)
termination_by p => p.length
decreasing_by all_goals (simp; try omega)

theorem scanClass_len (p : B) : (scanClass p).2.length ≤ p.length := by
  induction p using scanClass.induct <;> (unfold scanClass; simp_all) <;> omega

def splitNeg : B → Bool × B
  | [] => (false, [])
  | x :: r => if x == cCaret then (true, r) else (false, x :: r)

theorem splitNeg_len (p : B) : (splitNeg p).2.length ≤ p.length := by
  cases p with
  | nil => simp [splitNeg]
  | cons x r => by_cases h : x == cCaret <;> simp [splitNeg, h]

/-- what follows a `[`: the atom and the rest of the pattern -/
def classAtom (p : B) : Atom × B :=
  let nb := splitNeg p
  let sc := scanClass nb.2
  (if sc.1.isEmpty then (if nb.1 then .any else .never) else .cls nb.1 sc.1, sc.2)

theorem classAtom_len (p : B) : (classAtom p).2.length ≤ p.length := by
  unfold classAtom
  have h1 := splitNeg_len p
  have h2 := scanClass_len (splitNeg p).2
  simp only; omega

/-- `compile_pattern` as a list of atoms -/
def compile : B → List Atom
  | [] => []
  | c :: rest =>
    if c == cQ then .any :: compile rest
    else if c == cStar then .star :: compile rest
    else if c == cBS then
      match rest with
      | [] => [.lit cBS]
      | x :: rest' => .lit x :: compile rest'
    else if c == cLB then
      have : (classAtom rest).2.length < rest.length + 1 := by have := classAtom_len rest; omega
      (classAtom rest).1 :: compile (classAtom rest).2
    else .lit c :: compile rest
termination_by p => p.length
decreasing_by all_goals (simp; try omega)

def Atom.matches1 (c : UInt8) : Atom → Bool
  | .any => true | .star => true | .lit x => x == c | .never => false
  | .cls neg items => neg != items.any (CItem.matches c)

/-- anchored backtracking match of the atom list (`regex.match(s)` with `\Z`) -/
def matchA : List Atom → B → Bool
  | [], s => s.isEmpty
  | .star :: as, s =>
    matchA as s || (match s with | [] => false | _ :: t => matchA (.star :: as) t)
  | _ :: _, [] => false
  | a :: as, c :: t => a.matches1 c && matchA as t
termination_by as s => as.length + s.length
decreasing_by all_goals (simp; try omega)

/-- `compile_pattern(p).match(s) is not None` -/
def globMatch (p s : B) : Bool := matchA (compile p) s

end FR.Glob
