import FR.Glob.Compile
/-!
# Specification: a port of Redis's `stringmatchlen` (util.c, 6.2/7.0, `nocase = 0`),
bytes compared unsigned.  Independent of `Compile.lean` (own class loop).
-/
namespace FR.Glob

def dropStars : B → B
  | [] => []
  | c :: r => if c == cStar then dropStars r else c :: r

theorem dropStars_len (p : B) : (dropStars p).length ≤ p.length := by
  induction p with
  | nil => simp [dropStars]
  | cons c r ih => unfold dropStars; split <;> simp <;> omega

/-- the `while(1)` loop inside `case '['` -/
def rClassLoop (x : UInt8) : B → Bool → Bool × B
  | [], m => (m, [])
  | [a], m => if a == cRB then (m, []) else (m || a == x, [])
  | a :: y :: rest, m =>
    if a == cBS then rClassLoop x rest (m || y == x)
    else if a == cRB then (m, y :: rest)
    else match rest with
      | b :: rest' =>
        if y == cDash then
          rClassLoop x rest' (m || ((if a > b then b else a) ≤ x && x ≤ (if a > b then a else b)))
        else rClassLoop x (y :: b :: rest') (m || a == x)
      | [] => rClassLoop x [y] (m || a == x)
termination_by p => p.length
decreasing_by all_goals (simp; try omega)

theorem rClassLoop_len (x : UInt8) (p : B) (m : Bool) : (rClassLoop x p m).2.length ≤ p.length := by
  induction p, m using rClassLoop.induct x <;> (unfold rClassLoop; simp_all) <;> omega

def rClass (x : UInt8) (p : B) : Bool × B :=
  let nb := splitNeg p
  let r := rClassLoop x nb.2 false
  (if nb.1 then !r.1 else r.1, r.2)

theorem rClass_len (x : UInt8) (p : B) : (rClass x p).2.length ≤ p.length := by
  unfold rClass
  have h1 := splitNeg_len p
  have h2 := rClassLoop_len x (splitNeg p).2 false
  simp only; omega

def rglob (p s : B) : Bool :=
  match p, s with
  | [], [] => true
  | [], _ :: _ => false
  | _ :: _, [] => false
  | c :: p', x :: t =>
    if c == cStar then
      let p'' := dropStars p'
      have := dropStars_len p'
      if p''.isEmpty then true
      else rglob p'' (x :: t) || (match t with | [] => false | y :: t' => rglob (c :: p') (y :: t'))
    else if c == cQ then (if t.isEmpty then (dropStars p').isEmpty else rglob p' t)
    else if c == cLB then
      have : (rClass x p').2.length < p'.length + 1 := by have := rClass_len x p'; omega
      if (rClass x p').1 then (if t.isEmpty then (dropStars (rClass x p').2).isEmpty else rglob (rClass x p').2 t) else false
    else if c == cBS then
      match p' with
      | y :: p'' => if y == x then (if t.isEmpty then (dropStars p'').isEmpty else rglob p'' t) else false
      | [] => if c == x then t.isEmpty else false
    else if c == x then (if t.isEmpty then (dropStars p').isEmpty else rglob p' t) else false
termination_by p.length + s.length
decreasing_by all_goals (simp_all; try omega)

end FR.Glob
