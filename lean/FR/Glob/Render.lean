import FR.Glob.Compile
/-!
# The regex TEXT that `compile_pattern` (`_helpers.py`) builds, as a function of the atom list.

`render (compile p)` is meant to be byte-for-byte `compile_pattern(p).pattern`:

* `parts = ['^']` … `parts.append('\\Z')`            → `^` ++ pieces ++ `\Z`
* `?` → `.`, `*` → `.*`
* `\x`, an ordinary byte `x`                         → `re.escape(x)`  (a trailing `\` escapes itself)
* `[` … `]`                                           → `[` (`^`)? items `]`, every member through
  `re.escape`, a range as `re.escape(lo) + '-' + re.escape(hi)` (end points already ordered)
* empty set → `(?!)`, negated empty set → `.`

`re.escape` (CPython ≥ 3.7) on a one-character latin-1 string: `_special_chars_map` puts a backslash
in front of exactly the bytes of `()[]{}?*+-|^$\.&~# \t\n\r\v\f`.
-/
namespace FR.Glob

/-- the keys of CPython's `re._special_chars_map` -/
def isEscaped (c : UInt8) : Bool :=
  c == 40 || c == 41 || c == 91 || c == 93 || c == 123 || c == 125 || c == 63 || c == 42 ||
  c == 43 || c == 45 || c == 124 || c == 94 || c == 36 || c == 92 || c == 46 || c == 38 ||
  c == 126 || c == 35 || c == 32 || c == 9 || c == 10 || c == 13 || c == 11 || c == 12

/-- `re.escape(chr(c))` (latin-1) -/
def escapeByte (c : UInt8) : B := if isEscaped c then [cBS, c] else [c]

/-- one member of a `[...]` set -/
def renderItem : CItem → B
  | .ch c => escapeByte c
  | .range lo hi => escapeByte lo ++ cDash :: escapeByte hi

def renderItems : List CItem → B
  | [] => []
  | it :: its => renderItem it ++ renderItems its

/-- the piece of regex text of one atom -/
def renderAtom : Atom → B
  | .any => [46]                                   -- `.`
  | .star => [46, 42]                              -- `.*`
  | .lit c => escapeByte c
  | .never => [40, 63, 33, 41]                     -- `(?!)`
  | .cls neg items => cLB :: ((if neg then [cCaret] else []) ++ (renderItems items ++ [cRB]))

def renderAtoms : List Atom → B
  | [] => []
  | a :: as => renderAtom a ++ renderAtoms as

/-- `compile_pattern(p).pattern` for a pattern whose atoms are `as`: `^` pieces `\Z` -/
def render (as : List Atom) : B := cCaret :: (renderAtoms as ++ [cBS, 90])

end FR.Glob
