import FR.Prelude.Bytes
/-!
# Python sequence semantics: slices and indexing with negative indices
-/
namespace FR.Py

/-- CPython `PySlice_AdjustIndices` for step = +1 -/
def adj (i : Int) (len : Nat) : Nat :=
  if i < 0 then (if i + len < 0 then 0 else (i + len).toNat) else (if i > len then len else i.toNat)

/-- `l[a:b]` -/
def slice {α} (l : List α) (a b : Int) : List α :=
  let s := adj a l.length
  let e := adj b l.length
  (l.drop s).take (e - s)

/-- `l[a:]` -/
def sliceFrom {α} (l : List α) (a : Int) : List α := l.drop (adj a l.length)

/-- `l[:b]` -/
def sliceTo {α} (l : List α) (b : Int) : List α := l.take (adj b l.length)

/-- `l[i]` with `IndexError` as `none` -/
def index? {α} (l : List α) (i : Int) : Option α :=
  if i < 0 then (if i + l.length < 0 then none else l[(i + l.length).toNat]?) else l[i.toNat]?

/-- `l[i] = v`; `none` on `IndexError` -/
def setIndex? {α} (l : List α) (i : Int) (v : α) : Option (List α) :=
  if i < 0 then
    (if i + l.length < 0 then none else some (l.set (i + l.length).toNat v))
  else if i.toNat < l.length then some (l.set i.toNat v) else none

/-- `l.insert(i, v)` for `0 ≤ i` -/
def insertAt {α} (l : List α) (i : Nat) (v : α) : List α := l.take i ++ v :: l.drop i

/-- `l.index(x)` -/
def indexOf? {α} [BEq α] (l : List α) (x : α) : Option Nat :=
  let rec go : List α → Nat → Option Nat
    | [], _ => none
    | y :: ys, n => if y == x then some n else go ys (n + 1)
  go l 0

end FR.Py
