/-!
# Bytes, hex, decimal codec

`Bytes` is `List UInt8`.  Everything here is core Lean only (the driver links natively).
-/
namespace FR

abbrev Bytes := List UInt8

def strBytes (s : String) : Bytes := s.toUTF8.toList

/-- ASCII rendering used for messages built by the model (ASCII only). -/
def bytesStr (b : Bytes) : String := String.ofList (b.map (fun c => Char.ofNat c.toNat))

def hexDigit (n : Nat) : Char :=
  if n < 10 then Char.ofNat (48 + n) else Char.ofNat (87 + n)

def toHex (b : Bytes) : String :=
  String.ofList (b.flatMap (fun c => [hexDigit (c.toNat / 16), hexDigit (c.toNat % 16)]))

def hexVal (c : Char) : Option Nat :=
  if '0' ≤ c ∧ c ≤ '9' then some (c.toNat - 48)
  else if 'a' ≤ c ∧ c ≤ 'f' then some (c.toNat - 87)
  else if 'A' ≤ c ∧ c ≤ 'F' then some (c.toNat - 55)
  else none

def fromHexChars : List Char → Option Bytes
  | [] => some []
  | [_] => none
  | a :: b :: rest =>
    match hexVal a, hexVal b, fromHexChars rest with
    | some x, some y, some r => some (UInt8.ofNat (x * 16 + y) :: r)
    | _, _, _ => none

def fromHex (s : String) : Option Bytes := fromHexChars s.toList

/-! ## decimal codec (Python `str(int).encode()` / `int(bytes)` restricted to the canonical form) -/

def natDigits (n : Nat) : Bytes := (toString n).toUTF8.toList

/-- `str(n).encode()` -/
def intBytes (n : Int) : Bytes :=
  if n < 0 then 45 :: natDigits n.natAbs else natDigits n.natAbs

def isDigit (c : UInt8) : Bool := 48 ≤ c && c ≤ 57

def digitsVal (ds : Bytes) : Nat := ds.foldl (fun acc c => acc * 10 + (c.toNat - 48)) 0

/-- Canonical decimal: optional `-`, no leading zeros (except `0` itself), no `-0`. -/
def parseCanonInt (b : Bytes) : Option Int :=
  match b with
  | [] => none
  | 45 :: ds =>
    match ds with
    | [] => none
    | d :: _ =>
      if ds.all isDigit && d != 48 then some (-(digitsVal ds : Int)) else none
  | d :: rest =>
    if b.all isDigit && (d != 48 || rest.isEmpty) then some (digitsVal b : Int) else none

/-! ## case normalisation (`casenorm`, `casematch`, `null_terminate`) -/

def nullTerminate : Bytes → Bytes
  | [] => []
  | c :: rest => if c == 0 then [] else c :: nullTerminate rest

/-- Python `bytes.lower()`: ASCII only -/
def lowerByte (c : UInt8) : UInt8 := if 65 ≤ c && c ≤ 90 then c + 32 else c

def casenorm (b : Bytes) : Bytes := (nullTerminate b).map lowerByte

def casematch (a : Bytes) (lit : String) : Bool := casenorm a == strBytes lit

/-- Lexicographic order on bytes (Python bytes comparison). -/
def bytesLt : Bytes → Bytes → Bool
  | [], [] => false
  | [], _ :: _ => true
  | _ :: _, [] => false
  | a :: as, b :: bs => if a < b then true else if a > b then false else bytesLt as bs

def bytesLe (a b : Bytes) : Bool := !bytesLt b a

/-- insertion sort by a `lt` (stable) -/
def insertSorted {α} (lt : α → α → Bool) (x : α) : List α → List α
  | [] => [x]
  | y :: ys => if lt x y then x :: y :: ys else y :: insertSorted lt x ys

def sortBy {α} (lt : α → α → Bool) (l : List α) : List α :=
  l.foldr (fun x acc => insertSorted lt x acc) []

end FR
