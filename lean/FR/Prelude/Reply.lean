import FR.Prelude.Bytes
namespace FR

/-- A reply as it sits in a connection's reply queue after `_decode_result`. -/
inductive Reply where
  | nil
  | int (n : Int)
  | bulk (b : Bytes)
  | status (b : Bytes)
  | err (m : Bytes)
  | arr (xs : List Reply)
  deriving Repr, Inhabited, BEq

mutual
/-- canonical text used on the line protocol -/
def Reply.render : Reply → String
  | .nil => "nil"
  | .int n => "i:" ++ toString n
  | .bulk b => "b:" ++ toHex b
  | .status b => "s:" ++ toHex b
  | .err m => "e:" ++ toHex m
  | .arr xs => "[" ++ Reply.renderList xs ++ "]"
def Reply.renderList : List Reply → String
  | [] => ""
  | [x] => x.render
  | x :: xs => x.render ++ "," ++ Reply.renderList xs
end

def Reply.isErr : Reply → Bool
  | .err _ => true
  | _ => false

def Reply.ok : Reply := .status (strBytes "OK")
def Reply.queued : Reply := .status (strBytes "QUEUED")
def Reply.pong : Reply := .status (strBytes "PONG")

def Reply.ofOptBulk : Option Bytes → Reply
  | none => .nil
  | some b => .bulk b

def Reply.bulks (l : List Bytes) : Reply := .arr (l.map .bulk)

end FR
