import FR.Prelude.Bytes
/-!
# Exact IEEE-754 binary64 ("soft float")

value = (-1)^neg * m * 2^e with m < 2^53 and e ≥ -1074; m < 2^52 only when e = -1074.
All arithmetic is exact `Nat`/`Int` arithmetic followed by one round-to-nearest-even, so the
kernel can unfold it.  Validated bit-for-bit against CPython by the correspondence (C18).
-/
namespace FR

inductive Dbl where
  | fin (neg : Bool) (m : Nat) (e : Int)
  | inf (neg : Bool)
  | nan
  deriving Repr, DecidableEq, Inhabited

namespace Dbl
def pow2 (n : Nat) : Nat := 1 <<< n

def zero : Dbl := .fin false 0 (-1074)
def one : Dbl := .fin false (pow2 52) (-52)

/-- round the positive rational num/den (den > 0) to nearest-even binary64 -/
def roundPos (neg : Bool) (num den : Nat) : Dbl :=
  if num == 0 then .fin neg 0 (-1074) else
  let e0 : Int := (num.log2 : Int) - (den.log2 : Int) - 52
  let q (e : Int) : Nat := if e ≥ 0 then num / (den * pow2 e.toNat) else (num * pow2 (-e).toNat) / den
  let e1 : Int := if q e0 ≥ pow2 53 then e0 + 1 else if q e0 < pow2 52 then e0 - 1 else e0
  let e : Int := if e1 < -1074 then -1074 else e1
  let (n', d') : Nat × Nat := if e ≥ 0 then (num, den * pow2 e.toNat) else (num * pow2 (-e).toNat, den)
  let qq := n' / d'
  let r := n' % d'
  let up := decide (2 * r > d') || (decide (2 * r == d') && qq % 2 == 1)
  let m := if up then qq + 1 else qq
  let (m, e) := if m == pow2 53 then (pow2 52, e + 1) else (m, e)
  if e > 971 then .inf neg else .fin neg m e

def addFin (n1 : Bool) (m1 : Nat) (e1 : Int) (n2 : Bool) (m2 : Nat) (e2 : Int) : Dbl :=
  let e := min e1 e2
  let a : Int := (if n1 then -1 else 1) * (m1 * pow2 (e1 - e).toNat : Nat)
  let b : Int := (if n2 then -1 else 1) * (m2 * pow2 (e2 - e).toNat : Nat)
  let s := a + b
  if s == 0 then .fin (n1 && n2) 0 (-1074)
  else
    let neg := decide (s < 0)
    let mag := s.natAbs
    if e ≥ 0 then roundPos neg (mag * pow2 e.toNat) 1 else roundPos neg mag (pow2 (-e).toNat)

def add : Dbl → Dbl → Dbl
  | .nan, _ | _, .nan => .nan
  | .inf a, .inf b => if a == b then .inf a else .nan
  | .inf a, _ => .inf a
  | _, .inf b => .inf b
  | .fin n1 m1 e1, .fin n2 m2 e2 => addFin n1 m1 e1 n2 m2 e2

def mul : Dbl → Dbl → Dbl
  | .nan, _ | _, .nan => .nan
  | .inf a, .inf b => .inf (a != b)
  | .inf a, .fin n m _ => if m == 0 then .nan else .inf (a != n)
  | .fin n m _, .inf b => if m == 0 then .nan else .inf (n != b)
  | .fin n1 m1 e1, .fin n2 m2 e2 =>
    let neg := n1 != n2
    let m := m1 * m2
    let e := e1 + e2
    if m == 0 then .fin neg 0 (-1074)
    else if e ≥ 0 then roundPos neg (m * pow2 e.toNat) 1 else roundPos neg m (pow2 (-e).toNat)

def isNaN : Dbl → Bool | .nan => true | _ => false
def isInf : Dbl → Bool | .inf _ => true | _ => false
def isFinite : Dbl → Bool | .fin .. => true | _ => false
def isZero : Dbl → Bool | .fin _ 0 _ => true | _ => false

/-- exact value of a finite double as an integer numerator over 2^1074 -/
def scaled : Dbl → Int
  | .fin neg m e => (if neg then -1 else 1) * ((m * pow2 (e + 1074).toNat : Nat) : Int)
  | _ => 0

/-- IEEE `<` (false when either is NaN; -0 = +0) -/
def lt : Dbl → Dbl → Bool
  | .nan, _ | _, .nan => false
  | .inf a, .inf b => a && !b
  | .inf a, .fin .. => a
  | .fin .., .inf b => !b
  | x@(.fin ..), y@(.fin ..) => decide (x.scaled < y.scaled)

/-- IEEE `==` -/
def eq : Dbl → Dbl → Bool
  | .nan, _ | _, .nan => false
  | .inf a, .inf b => a == b
  | .inf _, .fin .. | .fin .., .inf _ => false
  | x@(.fin ..), y@(.fin ..) => decide (x.scaled = y.scaled)

def le (a b : Dbl) : Bool := lt a b || eq a b

/-- Python `max(a, b)`: `b if b > a else a` -/
def pyMax (a b : Dbl) : Dbl := if lt a b then b else a
/-- Python `min(a, b)`: `b if b < a else a` -/
def pyMin (a b : Dbl) : Dbl := if lt b a then b else a

def ofInt (n : Int) : Dbl :=
  if n == 0 then zero else roundPos (decide (n < 0)) n.natAbs 1

/-- decimal literal  (-1)^neg * digits * 10^exp10  → nearest double (`exp10` clamped) -/
def ofDecimal (neg : Bool) (digits : Nat) (exp10 : Int) : Dbl :=
  if digits == 0 then .fin neg 0 (-1074)
  else
    let nd : Int := ((toString digits).length : Nat)
    if exp10 + nd > 400 then .inf neg
    else if exp10 + nd < -400 then .fin neg 0 (-1074)
    else if exp10 ≥ 0 then roundPos neg (digits * 10 ^ exp10.toNat) 1
    else roundPos neg digits (10 ^ (-exp10).toNat)

/-- Python `int(x)` for finite x: truncation toward zero -/
def truncToInt : Dbl → Int
  | .fin neg m e =>
    let mag : Nat := if e ≥ 0 then m * pow2 e.toNat else m / pow2 (-e).toNat
    if neg then -(mag : Int) else mag
  | _ => 0

def toBits : Dbl → UInt64
  | .nan => 0x7FF8000000000000
  | .inf neg => (if neg then 0x8000000000000000 else 0) ||| 0x7FF0000000000000
  | .fin neg m e =>
    let s : UInt64 := if neg then 0x8000000000000000 else 0
    if m < pow2 52 then s ||| UInt64.ofNat m
    else s ||| (UInt64.ofNat ((e + 1075).toNat) <<< 52) ||| UInt64.ofNat (m - pow2 52)

def ofBits (b : UInt64) : Dbl :=
  let neg := (b >>> 63) == 1
  let ex := ((b >>> 52) &&& 0x7FF).toNat
  let fr := (b &&& 0xFFFFFFFFFFFFF).toNat
  if ex == 0x7FF then (if fr == 0 then .inf neg else .nan)
  else if ex == 0 then .fin neg fr (-1074)
  else .fin neg (fr + pow2 52) ((ex : Int) - 1075)

private def stripZeros (l : List Char) : List Char := (l.reverse.dropWhile (· == '0')).reverse

/-- `'{:.17g}'.format(x)` -/
def fmtG17 : Dbl → String
  | .nan => "nan"
  | .inf neg => if neg then "-inf" else "inf"
  | .fin neg m e =>
    let sign := if neg then "-" else ""
    if m == 0 then sign ++ "0" else
    let (num, den) : Nat × Nat := if e ≥ 0 then (m * pow2 e.toNat, 1) else (m, pow2 (-e).toNat)
    let est : Int := (((num.log2 : Int) - (den.log2 : Int)) * 30103) / 100000
    let ge (d : Int) : Bool := if d ≥ 0 then decide (num ≥ den * 10 ^ d.toNat) else decide (num * 10 ^ (-d).toNat ≥ den)
    let d0 := est - 1
    let d1 := if ge (d0 + 1) then d0 + 1 else d0
    let d2 := if ge (d1 + 1) then d1 + 1 else d1
    let d3 := if ge (d2 + 1) then d2 + 1 else d2
    let sh := d3 - 16
    let (n', d') : Nat × Nat := if sh ≥ 0 then (num, den * 10 ^ sh.toNat) else (num * 10 ^ (-sh).toNat, den)
    let q := n' / d'
    let r := n' % d'
    let up := decide (2 * r > d') || (decide (2 * r == d') && q % 2 == 1)
    let D0 := if up then q + 1 else q
    let (D, d) : Nat × Int := if D0 == 10 ^ 17 then (10 ^ 16, d3 + 1) else (D0, d3)
    let ds := (toString D).toList
    if d < -4 || d ≥ 17 then
      let mant := match ds with
        | h :: t => let t' := stripZeros t; if t'.isEmpty then [h] else h :: '.' :: t'
        | [] => []
      let ea := d.natAbs
      let es := if ea < 10 then "0" ++ toString ea else toString ea
      sign ++ String.ofList mant ++ "e" ++ (if d < 0 then "-" else "+") ++ es
    else if d ≥ 0 then
      let ip := ds.take (d.toNat + 1)
      let fp := stripZeros (ds.drop (d.toNat + 1))
      sign ++ String.ofList ip ++ (if fp.isEmpty then "" else "." ++ String.ofList fp)
    else
      let fp := stripZeros (List.replicate ((-d).toNat - 1) '0' ++ ds)
      sign ++ "0." ++ String.ofList fp

/-- `re.sub(r'\.?0+$', '', '{:.17f}'.format(x))` for finite x (`Float.encode(..., humanfriendly=True)`) -/
def fmtF17Human : Dbl → String
  | .nan => "nan"
  | .inf neg => if neg then "-inf" else "inf"
  | .fin neg m e =>
    let sign := if neg then "-" else ""
    let (num, den) : Nat × Nat := if e ≥ 0 then (m * pow2 e.toNat, 1) else (m, pow2 (-e).toNat)
    let n' := num * 10 ^ 17
    let q := n' / den
    let r := n' % den
    let up := decide (2 * r > den) || (decide (2 * r == den) && q % 2 == 1)
    let N := if up then q + 1 else q
    let ip := N / 10 ^ 17
    let fpN := N % 10 ^ 17
    let fs := (toString fpN).toList
    let fp := stripZeros (List.replicate (17 - fs.length) '0' ++ fs)
    sign ++ toString ip ++ (if fp.isEmpty then "" else "." ++ String.ofList fp)

/-- `Float.encode(value, humanfriendly)` (the `0 +` of version 7 is applied by the caller) -/
def encode (d : Dbl) (human : Bool) : Bytes :=
  match d with
  | .inf neg => strBytes (if neg then "-inf" else "inf")
  | _ => strBytes (if human then fmtF17Human d else fmtG17 d)

/-- `0 + value` / `0.0 + value`: turns -0.0 into +0.0, identity otherwise -/
def plusZero (d : Dbl) : Dbl := add zero d

end Dbl

/-! ## Python `float(bytes)` -/
namespace PyFloat

def isSpace (c : UInt8) : Bool := c == 32 || (9 ≤ c && c ≤ 13)

def stripSpaces (b : Bytes) : Bytes :=
  ((b.dropWhile isSpace).reverse.dropWhile isSpace).reverse

def takeDigits (b : Bytes) : Bytes × Bytes := (b.takeWhile isDigit, b.dropWhile isDigit)

/-- parse an optionally signed decimal exponent; `none` if malformed -/
def parseExp (b : Bytes) : Option Int :=
  let (neg, rest) : Bool × Bytes := match b with
    | 43 :: r => (false, r)
    | 45 :: r => (true, r)
    | _ => (false, b)
  if rest.isEmpty || !rest.all isDigit then none
  else
    -- clamp huge exponents: more than 6 significant digits already saturates
    let ds := rest.dropWhile (· == 48)
    let v : Int := if ds.length > 6 then 1000000 else (digitsVal ds : Int)
    some (if neg then -v else v)

/-- the unsigned numeric part after sign removal: `inf`, `infinity`, `nan`, or a decimal literal -/
def parseUnsigned (neg : Bool) (b : Bytes) : Option Dbl :=
  let lower := b.map lowerByte
  if lower == strBytes "inf" || lower == strBytes "infinity" then some (.inf neg)
  else if lower == strBytes "nan" then some .nan
  else
    let (ip, r1) := takeDigits b
    let (fp, r2) : Bytes × Bytes := match r1 with
      | 46 :: r => takeDigits r
      | _ => ([], r1)
    let hasDot := match r1 with | 46 :: _ => true | _ => false
    let _ := hasDot
    if ip.isEmpty && fp.isEmpty then none
    else
      let exp? : Option Int := match r2 with
        | [] => some 0
        | c :: r => if c == 101 || c == 69 then parseExp r else none
      match exp? with
      | none => none
      | some ex =>
        let digits := digitsVal (ip ++ fp)
        some (Dbl.ofDecimal neg digits (ex - (fp.length : Int)))

/-- CPython `float(b)` for a bytes object (no underscores: callers reject them first) -/
def parse (b : Bytes) : Option Dbl :=
  let s := stripSpaces b
  match s with
  | 43 :: r => parseUnsigned false r
  | 45 :: r => parseUnsigned true r
  | _ => parseUnsigned false s

end PyFloat
end FR
