import FR.Generated.Mech
/-!
# Bridge: the `CommandItem` mechanism translated from the source equals the model's

`CI.setValue / setExpire / update / updated / truthy / writeback` and `Db.expired` are what every generic theorem
(C06 notifications, C07 purge simulation, C08 error paths, C09 no empty collection, C13 frame) unfolds.  Here they are
proved equal to the statement-by-statement translation of `fakeredis/_commands.py:CommandItem` and
`fakeredis/_helpers.py:Database.expired` regenerated on every run.
-/
set_option linter.unusedSimpArgs false
namespace FR.Bridge
open FR

theorem mech_setExpire_eq : Generated.Mech.setExpire = CI.setExpire := by
  funext c e; rfl

theorem mech_setValue_eq : Generated.Mech.setValue = CI.setValue := by
  funext c v; rfl

theorem mech_update_eq (c : CI) (v : Value) : Generated.Mech.update c (some v) = CI.update c v := rfl

theorem mech_updated_eq : Generated.Mech.updated = CI.updated := by
  funext c; rfl

theorem mech_truthy_eq : Generated.Mech.truthy = CI.truthy := by
  funext c
  unfold Generated.Mech.truthy CI.truthy
  rcases h : c.val with _ | v
  · rfl
  · cases v <;> simp [Mech.pyTruth, Mech.isBytes, Value.isEmptyColl]

theorem mech_expired_eq : Generated.Mech.expired = Db.expired := by
  funext db it; rfl

/-- `key in db` in terms of the lazy lookup -/
theorem contains_eq (db : Db) (k : Bytes) : Mech.contains db k = ((db.get k).1, (db.get k).2.isSome) := by
  unfold Mech.contains
  split <;> simp_all

/-- the deadline-only branch of the model, in terms of the two idioms the translation uses -/
theorem deadline_branch (db : Db) (k : Bytes) (e : Option Int) :
    (match db.get k with
      | (db', some it) => (({ db' with dict := Db.setRaw db'.dict k { it with expireat := e } } : Db), false)
      | (db', none) => (db', false)) =
    (match Mech.contains db k with
      | (db', true) => (Mech.setDeadline db' k e, false)
      | (db', false) => (db', false)) := by
  unfold Mech.contains Mech.setDeadline Db.get
  rcases hl : db.dict.lookup k with _ | it
  · simp
  · by_cases hx : db.expired it = true
    · simp [hx]
    · have hx' : db.expired it = false := by simpa using hx
      simp [hx', hl]

/-- The proof does not follow the shape of the generated text: it splits on the two flags and on the stored value, and
normalises both sides, so that an equivalent restructuring of `writeback` (guard clauses, `if self:`, swapped branches)
keeps the bridge. -/
theorem mech_writeback_eq : Generated.Mech.writeback = CI.writeback := by
  funext c db
  rcases c with ⟨key, val, expireat, modified, expMod⟩
  have hd := deadline_branch db key expireat
  cases modified <;> cases expMod <;> rcases val with _ | v <;> (try cases v) <;>
    simp [Generated.Mech.writeback, Generated.Mech.truthy, CI.writeback, Mech.isBytes, Mech.pyTruth, Mech.store, Value.isEmptyColl] <;>
    (try first | exact hd.symm | exact hd)

end FR.Bridge
