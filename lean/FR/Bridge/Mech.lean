import FR.Generated.Mech
/-!
# Bridge: the `CommandItem` mechanism translated from the source equals the model's

`CI.setValue / setExpire / update / updated / truthy / writeback` and `Db.expired` are what every generic theorem
(C06 notifications, C07 purge simulation, C08 error paths, C09 no empty collection, C13 frame) unfolds.  Here they are
proved equal to the statement-by-statement translation of `fakeredis/_commands.py:CommandItem` and
`fakeredis/_helpers.py:Database.expired` regenerated on every run.
-/
namespace FR.Bridge
open FR

theorem mech_setExpire_eq : Generated.Mech.setExpire = CI.setExpire := by
  funext c e; rfl

theorem mech_setValue_eq : Generated.Mech.setValue = CI.setValue := by
  funext c v; rfl

theorem mech_update_eq (c : CI) (v : Value) : Generated.Mech.update c (some v) = CI.update c v := rfl

theorem mech_updated_eq : Generated.Mech.updated = CI.updated := by
  funext c; rfl

theorem mech_truthy_eq : Generated.Mech.truthy = CI.truthy := by
  funext c
  unfold Generated.Mech.truthy CI.truthy
  rcases h : c.val with _ | v
  · rfl
  · cases v <;> simp [Mech.pyTruth, Mech.isBytes, Value.isEmptyColl]

theorem mech_expired_eq : Generated.Mech.expired = Db.expired := by
  funext db it; rfl

theorem mech_writeback_eq : Generated.Mech.writeback = CI.writeback := by
  funext c db
  unfold Generated.Mech.writeback CI.writeback
  by_cases hm : c.modified = true
  · simp only [hm, ↓reduceIte]
    rcases h : c.val with _ | v
    · simp [Mech.isBytes, Mech.pyTruth]
    · cases v <;> simp [Mech.isBytes, Mech.pyTruth, Mech.store, Value.isEmptyColl]
  · have hm' : c.modified = false := by simpa using hm
    simp only [hm', Bool.false_eq_true, ↓reduceIte]
    by_cases he : c.expMod = true
    · simp only [he, ↓reduceIte, Mech.contains, Mech.setDeadline]
      unfold Db.get
      rcases hl : db.dict.lookup c.key with _ | it
      · simp
      · by_cases hx : db.expired it = true
        · simp [hx]
        · have hx' : db.expired it = false := by simpa using hx
          simp [hx', hl]
    · have he' : c.expMod = false := by simpa using he
      simp [he']

end FR.Bridge
