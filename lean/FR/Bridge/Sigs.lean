import FR.Generated.Sigs
import FR.Cmd.SigTable
/-!
# Bridge: the regenerated signature table equals the frozen model table

Leaf of the import graph: nothing depends on this file, so a change in one `@command` decorator
fails exactly the theorem of that command (and `sigs_eq`).
-/
namespace FR.Bridge
open FR

theorem sigs_same_names : Generated.names = SigTable.sigs.map (·.name) := by decide
theorem sigs_eq : Generated.sigs = SigTable.sigs := by decide
theorem sig_append_eq : Generated.sigs[0]? = SigTable.sigs[0]? := by decide
theorem sig_bgsave_eq : Generated.sigs[1]? = SigTable.sigs[1]? := by decide
theorem sig_bitcount_eq : Generated.sigs[2]? = SigTable.sigs[2]? := by decide
theorem sig_blpop_eq : Generated.sigs[3]? = SigTable.sigs[3]? := by decide
theorem sig_brpop_eq : Generated.sigs[4]? = SigTable.sigs[4]? := by decide
theorem sig_brpoplpush_eq : Generated.sigs[5]? = SigTable.sigs[5]? := by decide
theorem sig_dbsize_eq : Generated.sigs[6]? = SigTable.sigs[6]? := by decide
theorem sig_decr_eq : Generated.sigs[7]? = SigTable.sigs[7]? := by decide
theorem sig_decrby_eq : Generated.sigs[8]? = SigTable.sigs[8]? := by decide
theorem sig_del_eq : Generated.sigs[9]? = SigTable.sigs[9]? := by decide
theorem sig_discard_eq : Generated.sigs[10]? = SigTable.sigs[10]? := by decide
theorem sig_dump_eq : Generated.sigs[11]? = SigTable.sigs[11]? := by decide
theorem sig_echo_eq : Generated.sigs[12]? = SigTable.sigs[12]? := by decide
theorem sig_eval_eq : Generated.sigs[13]? = SigTable.sigs[13]? := by decide
theorem sig_evalsha_eq : Generated.sigs[14]? = SigTable.sigs[14]? := by decide
theorem sig_exec_eq : Generated.sigs[15]? = SigTable.sigs[15]? := by decide
theorem sig_exists_eq : Generated.sigs[16]? = SigTable.sigs[16]? := by decide
theorem sig_expire_eq : Generated.sigs[17]? = SigTable.sigs[17]? := by decide
theorem sig_expireat_eq : Generated.sigs[18]? = SigTable.sigs[18]? := by decide
theorem sig_flushall_eq : Generated.sigs[19]? = SigTable.sigs[19]? := by decide
theorem sig_flushdb_eq : Generated.sigs[20]? = SigTable.sigs[20]? := by decide
theorem sig_get_eq : Generated.sigs[21]? = SigTable.sigs[21]? := by decide
theorem sig_getbit_eq : Generated.sigs[22]? = SigTable.sigs[22]? := by decide
theorem sig_getrange_eq : Generated.sigs[23]? = SigTable.sigs[23]? := by decide
theorem sig_getset_eq : Generated.sigs[24]? = SigTable.sigs[24]? := by decide
theorem sig_hdel_eq : Generated.sigs[25]? = SigTable.sigs[25]? := by decide
theorem sig_hexists_eq : Generated.sigs[26]? = SigTable.sigs[26]? := by decide
theorem sig_hget_eq : Generated.sigs[27]? = SigTable.sigs[27]? := by decide
theorem sig_hgetall_eq : Generated.sigs[28]? = SigTable.sigs[28]? := by decide
theorem sig_hincrby_eq : Generated.sigs[29]? = SigTable.sigs[29]? := by decide
theorem sig_hincrbyfloat_eq : Generated.sigs[30]? = SigTable.sigs[30]? := by decide
theorem sig_hkeys_eq : Generated.sigs[31]? = SigTable.sigs[31]? := by decide
theorem sig_hlen_eq : Generated.sigs[32]? = SigTable.sigs[32]? := by decide
theorem sig_hmget_eq : Generated.sigs[33]? = SigTable.sigs[33]? := by decide
theorem sig_hmset_eq : Generated.sigs[34]? = SigTable.sigs[34]? := by decide
theorem sig_hscan_eq : Generated.sigs[35]? = SigTable.sigs[35]? := by decide
theorem sig_hset_eq : Generated.sigs[36]? = SigTable.sigs[36]? := by decide
theorem sig_hsetnx_eq : Generated.sigs[37]? = SigTable.sigs[37]? := by decide
theorem sig_hstrlen_eq : Generated.sigs[38]? = SigTable.sigs[38]? := by decide
theorem sig_hvals_eq : Generated.sigs[39]? = SigTable.sigs[39]? := by decide
theorem sig_incr_eq : Generated.sigs[40]? = SigTable.sigs[40]? := by decide
theorem sig_incrby_eq : Generated.sigs[41]? = SigTable.sigs[41]? := by decide
theorem sig_incrbyfloat_eq : Generated.sigs[42]? = SigTable.sigs[42]? := by decide
theorem sig_keys_eq : Generated.sigs[43]? = SigTable.sigs[43]? := by decide
theorem sig_lastsave_eq : Generated.sigs[44]? = SigTable.sigs[44]? := by decide
theorem sig_lindex_eq : Generated.sigs[45]? = SigTable.sigs[45]? := by decide
theorem sig_linsert_eq : Generated.sigs[46]? = SigTable.sigs[46]? := by decide
theorem sig_llen_eq : Generated.sigs[47]? = SigTable.sigs[47]? := by decide
theorem sig_lmove_eq : Generated.sigs[48]? = SigTable.sigs[48]? := by decide
theorem sig_lpop_eq : Generated.sigs[49]? = SigTable.sigs[49]? := by decide
theorem sig_lpush_eq : Generated.sigs[50]? = SigTable.sigs[50]? := by decide
theorem sig_lpushx_eq : Generated.sigs[51]? = SigTable.sigs[51]? := by decide
theorem sig_lrange_eq : Generated.sigs[52]? = SigTable.sigs[52]? := by decide
theorem sig_lrem_eq : Generated.sigs[53]? = SigTable.sigs[53]? := by decide
theorem sig_lset_eq : Generated.sigs[54]? = SigTable.sigs[54]? := by decide
theorem sig_ltrim_eq : Generated.sigs[55]? = SigTable.sigs[55]? := by decide
theorem sig_mget_eq : Generated.sigs[56]? = SigTable.sigs[56]? := by decide
theorem sig_move_eq : Generated.sigs[57]? = SigTable.sigs[57]? := by decide
theorem sig_mset_eq : Generated.sigs[58]? = SigTable.sigs[58]? := by decide
theorem sig_msetnx_eq : Generated.sigs[59]? = SigTable.sigs[59]? := by decide
theorem sig_multi_eq : Generated.sigs[60]? = SigTable.sigs[60]? := by decide
theorem sig_persist_eq : Generated.sigs[61]? = SigTable.sigs[61]? := by decide
theorem sig_pexpire_eq : Generated.sigs[62]? = SigTable.sigs[62]? := by decide
theorem sig_pexpireat_eq : Generated.sigs[63]? = SigTable.sigs[63]? := by decide
theorem sig_pfadd_eq : Generated.sigs[64]? = SigTable.sigs[64]? := by decide
theorem sig_pfcount_eq : Generated.sigs[65]? = SigTable.sigs[65]? := by decide
theorem sig_pfmerge_eq : Generated.sigs[66]? = SigTable.sigs[66]? := by decide
theorem sig_ping_eq : Generated.sigs[67]? = SigTable.sigs[67]? := by decide
theorem sig_psetex_eq : Generated.sigs[68]? = SigTable.sigs[68]? := by decide
theorem sig_psubscribe_eq : Generated.sigs[69]? = SigTable.sigs[69]? := by decide
theorem sig_pttl_eq : Generated.sigs[70]? = SigTable.sigs[70]? := by decide
theorem sig_publish_eq : Generated.sigs[71]? = SigTable.sigs[71]? := by decide
theorem sig_punsubscribe_eq : Generated.sigs[72]? = SigTable.sigs[72]? := by decide
theorem sig_randomkey_eq : Generated.sigs[73]? = SigTable.sigs[73]? := by decide
theorem sig_rename_eq : Generated.sigs[74]? = SigTable.sigs[74]? := by decide
theorem sig_renamenx_eq : Generated.sigs[75]? = SigTable.sigs[75]? := by decide
theorem sig_restore_eq : Generated.sigs[76]? = SigTable.sigs[76]? := by decide
theorem sig_rpop_eq : Generated.sigs[77]? = SigTable.sigs[77]? := by decide
theorem sig_rpoplpush_eq : Generated.sigs[78]? = SigTable.sigs[78]? := by decide
theorem sig_rpush_eq : Generated.sigs[79]? = SigTable.sigs[79]? := by decide
theorem sig_rpushx_eq : Generated.sigs[80]? = SigTable.sigs[80]? := by decide
theorem sig_sadd_eq : Generated.sigs[81]? = SigTable.sigs[81]? := by decide
theorem sig_save_eq : Generated.sigs[82]? = SigTable.sigs[82]? := by decide
theorem sig_scan_eq : Generated.sigs[83]? = SigTable.sigs[83]? := by decide
theorem sig_scard_eq : Generated.sigs[84]? = SigTable.sigs[84]? := by decide
theorem sig_script_eq : Generated.sigs[85]? = SigTable.sigs[85]? := by decide
theorem sig_sdiff_eq : Generated.sigs[86]? = SigTable.sigs[86]? := by decide
theorem sig_sdiffstore_eq : Generated.sigs[87]? = SigTable.sigs[87]? := by decide
theorem sig_select_eq : Generated.sigs[88]? = SigTable.sigs[88]? := by decide
theorem sig_set_eq : Generated.sigs[89]? = SigTable.sigs[89]? := by decide
theorem sig_setbit_eq : Generated.sigs[90]? = SigTable.sigs[90]? := by decide
theorem sig_setex_eq : Generated.sigs[91]? = SigTable.sigs[91]? := by decide
theorem sig_setnx_eq : Generated.sigs[92]? = SigTable.sigs[92]? := by decide
theorem sig_setrange_eq : Generated.sigs[93]? = SigTable.sigs[93]? := by decide
theorem sig_sinter_eq : Generated.sigs[94]? = SigTable.sigs[94]? := by decide
theorem sig_sinterstore_eq : Generated.sigs[95]? = SigTable.sigs[95]? := by decide
theorem sig_sismember_eq : Generated.sigs[96]? = SigTable.sigs[96]? := by decide
theorem sig_smembers_eq : Generated.sigs[97]? = SigTable.sigs[97]? := by decide
theorem sig_smismember_eq : Generated.sigs[98]? = SigTable.sigs[98]? := by decide
theorem sig_smove_eq : Generated.sigs[99]? = SigTable.sigs[99]? := by decide
theorem sig_sort_eq : Generated.sigs[100]? = SigTable.sigs[100]? := by decide
theorem sig_spop_eq : Generated.sigs[101]? = SigTable.sigs[101]? := by decide
theorem sig_srandmember_eq : Generated.sigs[102]? = SigTable.sigs[102]? := by decide
theorem sig_srem_eq : Generated.sigs[103]? = SigTable.sigs[103]? := by decide
theorem sig_sscan_eq : Generated.sigs[104]? = SigTable.sigs[104]? := by decide
theorem sig_strlen_eq : Generated.sigs[105]? = SigTable.sigs[105]? := by decide
theorem sig_subscribe_eq : Generated.sigs[106]? = SigTable.sigs[106]? := by decide
theorem sig_substr_eq : Generated.sigs[107]? = SigTable.sigs[107]? := by decide
theorem sig_sunion_eq : Generated.sigs[108]? = SigTable.sigs[108]? := by decide
theorem sig_sunionstore_eq : Generated.sigs[109]? = SigTable.sigs[109]? := by decide
theorem sig_swapdb_eq : Generated.sigs[110]? = SigTable.sigs[110]? := by decide
theorem sig_time_eq : Generated.sigs[111]? = SigTable.sigs[111]? := by decide
theorem sig_ttl_eq : Generated.sigs[112]? = SigTable.sigs[112]? := by decide
theorem sig_type_eq : Generated.sigs[113]? = SigTable.sigs[113]? := by decide
theorem sig_unlink_eq : Generated.sigs[114]? = SigTable.sigs[114]? := by decide
theorem sig_unsubscribe_eq : Generated.sigs[115]? = SigTable.sigs[115]? := by decide
theorem sig_unwatch_eq : Generated.sigs[116]? = SigTable.sigs[116]? := by decide
theorem sig_watch_eq : Generated.sigs[117]? = SigTable.sigs[117]? := by decide
theorem sig_zadd_eq : Generated.sigs[118]? = SigTable.sigs[118]? := by decide
theorem sig_zcard_eq : Generated.sigs[119]? = SigTable.sigs[119]? := by decide
theorem sig_zcount_eq : Generated.sigs[120]? = SigTable.sigs[120]? := by decide
theorem sig_zincrby_eq : Generated.sigs[121]? = SigTable.sigs[121]? := by decide
theorem sig_zinterstore_eq : Generated.sigs[122]? = SigTable.sigs[122]? := by decide
theorem sig_zlexcount_eq : Generated.sigs[123]? = SigTable.sigs[123]? := by decide
theorem sig_zrange_eq : Generated.sigs[124]? = SigTable.sigs[124]? := by decide
theorem sig_zrangebylex_eq : Generated.sigs[125]? = SigTable.sigs[125]? := by decide
theorem sig_zrangebyscore_eq : Generated.sigs[126]? = SigTable.sigs[126]? := by decide
theorem sig_zrank_eq : Generated.sigs[127]? = SigTable.sigs[127]? := by decide
theorem sig_zrem_eq : Generated.sigs[128]? = SigTable.sigs[128]? := by decide
theorem sig_zremrangebylex_eq : Generated.sigs[129]? = SigTable.sigs[129]? := by decide
theorem sig_zremrangebyrank_eq : Generated.sigs[130]? = SigTable.sigs[130]? := by decide
theorem sig_zremrangebyscore_eq : Generated.sigs[131]? = SigTable.sigs[131]? := by decide
theorem sig_zrevrange_eq : Generated.sigs[132]? = SigTable.sigs[132]? := by decide
theorem sig_zrevrangebylex_eq : Generated.sigs[133]? = SigTable.sigs[133]? := by decide
theorem sig_zrevrangebyscore_eq : Generated.sigs[134]? = SigTable.sigs[134]? := by decide
theorem sig_zrevrank_eq : Generated.sigs[135]? = SigTable.sigs[135]? := by decide
theorem sig_zscan_eq : Generated.sigs[136]? = SigTable.sigs[136]? := by decide
theorem sig_zscore_eq : Generated.sigs[137]? = SigTable.sigs[137]? := by decide
theorem sig_zunionstore_eq : Generated.sigs[138]? = SigTable.sigs[138]? := by decide

/-- every argument count the signature accepts can be passed to the Python body without `TypeError` -/
def arityFits (s : Sig) : Bool :=
  if s.rep.isEmpty then
    (if s.pyVar then decide (s.pyReq ≤ s.fixed.length)
     else decide (s.pyReq ≤ s.fixed.length ∧ s.fixed.length ≤ s.pyReq + s.pyOpt))
  else s.pyVar && decide (s.pyReq ≤ s.fixed.length)

/-- `n` positional arguments fit the Python parameter list -/
def pyAccepts (s : Sig) (n : Nat) : Prop :=
  s.pyReq ≤ n ∧ (s.pyVar = true ∨ n ≤ s.pyReq + s.pyOpt)

theorem arityFits_sound (s : Sig) (h : arityFits s = true) (n : Nat) (hn : s.checkArity n = true) :
    pyAccepts s n := by
  unfold arityFits at h
  unfold Sig.checkArity at hn
  unfold pyAccepts
  by_cases hr : s.rep.isEmpty = true
  · simp only [hr, ↓reduceIte] at h hn
    by_cases hv : s.pyVar = true
    · simp only [hv, ↓reduceIte, decide_eq_true_eq] at h
      by_cases hne : (n != s.fixed.length) = true
      · simp [hne] at hn
      · have : n = s.fixed.length := by simpa using hne
        subst this; exact ⟨h, Or.inl hv⟩
    · simp only [hv, Bool.false_eq_true, ↓reduceIte, decide_eq_true_eq] at h
      by_cases hne : (n != s.fixed.length) = true
      · simp [hne] at hn
      · have : n = s.fixed.length := by simpa using hne
        subst this; exact ⟨h.1, Or.inr h.2⟩
  · simp only [hr, Bool.false_eq_true, ↓reduceIte, Bool.and_eq_true, decide_eq_true_eq] at h
    by_cases hne : (n != s.fixed.length) = true
    · simp only [hne, ↓reduceIte, hr, Bool.or_false, Bool.not_eq_eq_eq_not, Bool.not_true, decide_eq_false_iff_not, Nat.not_lt] at hn
      exact ⟨Nat.le_trans h.2 hn, Or.inl h.1⟩
    · have : n = s.fixed.length := by simpa using hne
      subst this; exact ⟨h.2, Or.inl h.1⟩

theorem callArity_table : Generated.sigs.all arityFits = true := by decide

/-- no accepted argument count makes the Python call of a command body raise `TypeError` -/
theorem callArity_ok : ∀ s ∈ Generated.sigs, ∀ n, s.checkArity n = true → pyAccepts s n := by
  intro s hs n hn
  have := List.all_eq_true.mp callArity_table s hs
  exact arityFits_sound s this n hn

end FR.Bridge
