import FR.Generated.Pure
import FR.Cmd.Env
/-! # Bridge: the helpers translated from the source equal the model's -/
set_option linter.unusedSimpArgs false
namespace FR.Bridge
open FR

theorem fixRange_eq : Generated.fixRange = FR.fixRange := by
  funext a b c
  simp only [Generated.fixRange, FR.fixRange]
  repeat' split
  all_goals first | rfl | (exfalso; omega) | (apply Prod.ext <;> simp only <;> omega)

theorem fixRangeString_eq : Generated.fixRangeString = FR.fixRangeString := by
  funext a b c
  simp only [Generated.fixRangeString, FR.fixRangeString]
  repeat' split
  all_goals first | rfl | (exfalso; omega) | (apply Prod.ext <;> simp only <;> omega)

/-- The proof does not follow the shape of the generated text: it splits on "has a repeat group" and on the three
possible orders of `n` and the number of fixed arguments and lets `simp`/`omega` evaluate both sides, so an equivalent
rewriting of `check_arity` keeps the bridge. -/
theorem checkArity_eq (s : Sig) (n : Nat) :
    Generated.checkArity n s.fixed.length (!s.rep.isEmpty) = s.checkArity n := by
  unfold Generated.checkArity Sig.checkArity
  rcases Nat.lt_trichotomy n s.fixed.length with hlt | heq | hgt <;> cases hr : s.rep.isEmpty
  all_goals first
    | (have h1 : (n : Int) - (s.fixed.length : Int) < 0 := by omega
       have h2 : ¬ ((n : Int) - (s.fixed.length : Int) > 0) := by omega
       have h3 : (n : Int) ≠ (s.fixed.length : Int) := by omega
       have h4 : n ≠ s.fixed.length := by omega
       simp [h1, h2, h3, h4, hlt] <;> omega)
    | (subst heq; simp; done)
    | (have h1 : ¬ ((n : Int) - (s.fixed.length : Int) < 0) := by omega
       have h2 : (n : Int) - (s.fixed.length : Int) > 0 := by omega
       have h3 : (n : Int) ≠ (s.fixed.length : Int) := by omega
       have h4 : n ≠ s.fixed.length := by omega
       have h5 : ¬ (n < s.fixed.length) := by omega
       simp [h1, h2, h3, h4, h5, hgt] <;> omega)

end FR.Bridge
