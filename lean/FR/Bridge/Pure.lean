import FR.Generated.Pure
import FR.Cmd.Env
/-! # Bridge: the helpers translated from the source equal the model's -/
namespace FR.Bridge
open FR

theorem fixRange_eq : Generated.fixRange = FR.fixRange := by
  funext a b c
  simp only [Generated.fixRange, FR.fixRange]
  repeat' split
  all_goals first | rfl | (exfalso; omega) | (apply Prod.ext <;> simp only <;> omega)

theorem fixRangeString_eq : Generated.fixRangeString = FR.fixRangeString := by
  funext a b c
  simp only [Generated.fixRangeString, FR.fixRangeString]
  repeat' split
  all_goals first | rfl | (exfalso; omega) | (apply Prod.ext <;> simp only <;> omega)

theorem checkArity_eq (s : Sig) (n : Nat) :
    Generated.checkArity n s.fixed.length (!s.rep.isEmpty) = s.checkArity n := by
  unfold Generated.checkArity Sig.checkArity
  by_cases h : n = s.fixed.length
  · simp [h]
  · have h' : (n : Int) ≠ (s.fixed.length : Int) := by omega
    simp only [ne_eq, h', not_false_eq_true, ↓reduceIte, bne_iff_ne, h]
    by_cases hr : s.rep.isEmpty = true
    · simp [hr]
    · have hr' : s.rep.isEmpty = false := by simpa using hr
      simp only [hr', Bool.not_false, Bool.true_eq_false, or_false, Bool.or_false]
      by_cases hlt : n < s.fixed.length
      · have : (n : Int) - (s.fixed.length : Int) < 0 := by omega
        simp [this, hlt]
      · have : ¬ ((n : Int) - (s.fixed.length : Int) < 0) := by omega
        simp [this, hlt]

end FR.Bridge
