import FR.Generated.Purity
import FR.Cmd.SigTable
/-!
# Bridge: every command body validates first and changes afterwards

The model represents a command body as a function `items → Except Err (reply × items')`: an error carries no state, so a
body that changes something and then raises cannot be expressed in it (DESIGN 12.2) - all the C08 theorems
(`FR.Props.C08s.error_reply_changes_nothing`, `regular_bodies_raise`) inherit that shape.  `Generated.Purity.sites` is the
result of a forward abstract interpretation of every body of `fakeredis/_fakesocket.py` (tools/gen_purity.py, rerun on every
check): per command, the `raise` statements and raising calls (converter `decode`, `_encodeint`, `_encodefloat`, helpers that
may raise) that can execute after the body has already changed a `CommandItem`, a stored container, the database, the server
or the connection.  It must be empty for every command except the two whose errors are specified to follow a change:
`exec` (the transaction state is ended, then `EXECABORT` / the queue runs) and `eval` (the script is cached and run; each
`redis.call` is a command of its own - `FR.Props.C08s.script_call_error_changes_nothing`).
-/
namespace FR.Bridge
open FR

def raiseAfterChangeAllowed : List String := ["eval", "exec"]

theorem purity_bodies_validate_first :
    ∀ p ∈ Generated.Purity.sites, p.2 = [] ∨ p.1 ∈ raiseAfterChangeAllowed := by decide +kernel

theorem purity_covers_all_commands : Generated.Purity.sites.map (·.1) = SigTable.sigs.map (·.name) := by decide +kernel

end FR.Bridge
