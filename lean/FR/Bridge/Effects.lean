import FR.Generated.Effects
import FR.Cmd.Table
import FR.Proofs.NotifyKeys
import FR.Proofs.Ttl
/-!
# Bridge: the effect atoms extracted from the command bodies agree with the model's classification

`Generated.Effects.table` is recomputed from the AST of `fakeredis/_fakesocket.py` on every run: for each command the
set of effect atoms its body can reach (through the helpers it calls).  The theorems below tie the hand-written lists
the property theorems quantify over to that table:

* the read commands of `FR.Props.C06k` (`readNames`: they notify nobody) are exactly the regular commands whose body
  contains no write to a `CommandItem`;
* the in-place commands of `FR.Props.C07t` (`inplaceNames`: they keep the deadline) never use the value setter or the
  deadline setter, and the replacing commands (`SET`, `GETSET`, `MSET`, `SETEX`, `PSETEX`, `*STORE`) do use the value setter;
* a command is *regular* in the model (a pure function of its `CommandItem`s, the clock and the version) iff its body
  touches nothing but its items, the clock and the version — with the exceptions spelled out in the statements.
-/
namespace FR.Bridge
open FR

def atomsOf (n : String) : Option (List String) := Generated.Effects.table.lookup n

/-- atoms that change a `CommandItem` -/
def writeAtoms : List String := ["setValue", "setExpire", "update", "writeback", "mkCI"]
def writes (a : List String) : Bool := a.any (writeAtoms.contains ·)

/-- atoms a regular (pure) body may have -/
def pureAtoms : List String := ["setValue", "setExpire", "update", "clock", "version"]
def isPure (a : List String) : Bool := a.all (pureAtoms.contains ·)

/-- HSCAN/SSCAN/ZSCAN share `_scan` with SCAN; its `TYPE` filter (unreachable without `allow_type`) mentions `self._db` -/
def scanShared : List String := ["hscan", "sscan", "zscan"]
/-- ECHO and TIME touch nothing, but have no key and are modelled with the server-level commands -/
def keylessPure : List String := ["echo", "time"]

theorem effects_cover_all_commands : Generated.Effects.table.map (·.1) = SigTable.sigs.map (·.name) := by decide +kernel

theorem effects_read_commands_write_nothing :
    ∀ n ∈ NotifyKeys.readNames, ∃ a, atomsOf n = some a ∧ writes a = false := by decide +kernel

theorem effects_nowrite_regular_is_read :
    ∀ p ∈ Generated.Effects.table, writes p.2 = false → (Cmd.regular p.1).isSome = true → p.1 ∈ NotifyKeys.readNames := by decide +kernel

theorem effects_inplace_keep_setters_away :
    ∀ n ∈ Ttl.inplaceNames, ∃ a, atomsOf n = some a ∧ a.contains "update" = true ∧ a.contains "setValue" = false ∧ a.contains "setExpire" = false := by
  decide +kernel

/-- the commands the TTL rules call "replacing" go through the value setter (which clears the deadline) -/
def replacingNames : List String := ["set", "getset", "mset", "setex", "psetex", "sunionstore", "sinterstore", "sdiffstore"]

theorem effects_replacing_use_value_setter :
    ∀ n ∈ replacingNames, ∃ a, atomsOf n = some a ∧ a.contains "setValue" = true := by decide +kernel

theorem effects_regular_bodies_are_pure :
    ∀ p ∈ Generated.Effects.table, (Cmd.regular p.1).isSome = true →
      isPure p.2 = true ∨ (p.1 ∈ scanShared ∧ isPure (p.2.filter (· != "self._db")) = true) := by decide +kernel

theorem effects_special_bodies_touch_the_server :
    ∀ p ∈ Generated.Effects.table, (Cmd.regular p.1).isSome = false → isPure p.2 = false ∨ p.1 ∈ keylessPure := by decide +kernel

end FR.Bridge
