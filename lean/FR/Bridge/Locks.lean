import FR.Generated.Locks
import FR.Sys.LockTable
/-!
# Bridge: the lock discipline holds on the tables extracted from the current source

`Generated.Locks.sync` / `.async` are recomputed from the AST of `fakeredis/_fakesocket.py` and `fakeredis/_async.py`
on every run.  What `disciplined` means for every call path is `FR.Props.C12l.disciplined_sound`.
-/
namespace FR.Bridge
open FR LockTable

theorem locks_sync_disciplined : disciplined benign Generated.Locks.sync = true := by decide +kernel
theorem locks_async_disciplined : disciplined benign Generated.Locks.async = true := by decide +kernel

theorem locks_tables_meaningful : meaningful Generated.Locks.sync = true ∧ meaningful Generated.Locks.async = true := by
  decide +kernel

end FR.Bridge
