import FR.Generated.Consts
import FR.Cmd.SigTable
import FR.Cmd.Scan
/-! # Bridge: converter constants, literal command lists, format strings, default COUNT -/
namespace FR.Bridge
open FR

theorem const_Int_MIN_eq : Generated.Consts.Int_MIN = Conv.INT_MIN := by decide
theorem const_Int_MAX_eq : Generated.Consts.Int_MAX = Conv.INT_MAX := by decide
theorem const_Int_DECODE_ERROR_eq : Generated.Consts.Int_DECODE_ERROR = Msgs.INVALID_INT_MSG := rfl
theorem const_Int_ENCODE_ERROR_eq : Generated.Consts.Int_ENCODE_ERROR = Msgs.OVERFLOW_MSG := rfl
theorem const_DbIndex_eq : (Generated.Consts.DbIndex_MIN, Generated.Consts.DbIndex_MAX, Generated.Consts.DbIndex_DECODE_ERROR)
    = (0, 15, Msgs.INVALID_DB_MSG) := rfl
theorem const_BitOffset_eq : (Generated.Consts.BitOffset_MIN, Generated.Consts.BitOffset_MAX, Generated.Consts.BitOffset_DECODE_ERROR)
    = (0, Conv.BIT_OFFSET_MAX, Msgs.INVALID_BIT_OFFSET_MSG) := by decide
theorem const_BitValue_eq : (Generated.Consts.BitValue_MIN, Generated.Consts.BitValue_MAX, Generated.Consts.BitValue_DECODE_ERROR)
    = (0, 1, Msgs.INVALID_BIT_VALUE_MSG) := rfl
theorem const_Timeout_eq : (Generated.Consts.Timeout_MIN, Generated.Consts.Timeout_MAX, Generated.Consts.Timeout_DECODE_ERROR)
    = (0, Conv.INT_MAX, Msgs.TIMEOUT_NEGATIVE_MSG) := by decide
theorem const_Float_DECODE_ERROR_eq : Generated.Consts.Float_DECODE_ERROR = Msgs.INVALID_FLOAT_MSG := rfl
theorem const_SortFloat_DECODE_ERROR_eq : Generated.Consts.SortFloat_DECODE_ERROR = Msgs.INVALID_SORT_FLOAT_MSG := rfl
theorem const_MAX_STRING_SIZE_eq : Generated.Consts.MAX_STRING_SIZE = Conv.MAX_STRING_SIZE := by decide
theorem notQueued_eq : Generated.Consts.notQueued = SigTable.notQueued := rfl
theorem notInMulti_eq : Generated.Consts.notInMulti = SigTable.notInMulti := rfl
theorem pubsubAllowed_eq : Generated.Consts.pubsubAllowed = SigTable.pubsubAllowed := rfl
/-- `Float.encode` uses exactly the two formats the model implements (`fmtF17Human`, `fmtG17`) -/
theorem floatFormats_eq : Generated.Consts.floatFormats = ["{:.17f}", "{:.17g}"] := rfl
theorem scanDefaultCount_eq : Generated.Consts.scanDefaultCount = ({} : Cmd.ScanOpts).count := rfl
end FR.Bridge
