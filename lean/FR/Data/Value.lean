import FR.Data.ZSet
namespace FR

inductive Ty where | str | list | set | hash | zset
  deriving Repr, DecidableEq, Inhabited

inductive Value where
  | str (b : Bytes)
  | list (l : List Bytes)
  | set (s : List Bytes)                 -- duplicate free; order is model-internal
  | hash (h : List (Bytes × Bytes))      -- Python dict order
  | zset (z : ZSet)
  deriving Repr, Inhabited

def Value.ty : Value → Ty
  | .str _ => .str | .list _ => .list | .set _ => .set | .hash _ => .hash | .zset _ => .zset

/-- `not isinstance(value, bytes) and not value` -/
def Value.isEmptyColl : Value → Bool
  | .str _ => false
  | .list l => l.isEmpty
  | .set s => s.isEmpty
  | .hash h => h.isEmpty
  | .zset z => z.bylex.isEmpty

/-- `type_()` for a missing typed key (`bytes` has no default) -/
def Ty.default : Ty → Option Value
  | .str => none
  | .list => some (.list [])
  | .set => some (.set [])
  | .hash => some (.hash [])
  | .zset => some (.zset ZSet.empty)

def Ty.name : Ty → String
  | .str => "string" | .list => "list" | .set => "set" | .hash => "hash" | .zset => "zset"

structure Item where
  value : Value
  expireat : Option Int
  deriving Repr, Inhabited

end FR
