import FR.Data.Value
/-!
# Model of `Database` (`_helpers.py`): a Python dict with lazy expiry
-/
namespace FR

abbrev Dict := List (Bytes × Item)

structure Db where
  dict : Dict
  time : Int
  deriving Repr, Inhabited

namespace Db

/-- `Database.expired` -/
def expired (db : Db) (it : Item) : Bool :=
  match it.expireat with
  | none => false
  | some t => decide (t < db.time)

def erase (d : Dict) (k : Bytes) : Dict := d.filter (fun p => p.1 != k)

/-- `Database.__getitem__` wrapped by `Mapping.get` / `__contains__`: lazy deletion of an expired entry -/
def get (db : Db) (k : Bytes) : Db × Option Item :=
  match db.dict.lookup k with
  | none => (db, none)
  | some it => if db.expired it then ({ db with dict := erase db.dict k }, none) else (db, some it)

/-- `_remove_expired` (run by `__iter__` and `__len__`) -/
def purge (db : Db) : Db := { db with dict := db.dict.filter (fun p => !db.expired p.2) }

/-- Python dict assignment `d[k] = it` -/
def setRaw (d : Dict) (k : Bytes) (it : Item) : Dict :=
  if d.any (fun p => p.1 == k) then d.map (fun p => if p.1 == k then (k, it) else p) else d ++ [(k, it)]

/-- `MutableMapping.pop(key, None)` -/
def pop (db : Db) (k : Bytes) : Db :=
  match db.get k with
  | (db', none) => db'
  | (db', some _) => { db' with dict := erase db'.dict k }

/-- `setdefault(key, Item(None))` followed by the two attribute assignments of `writeback` -/
def put (db : Db) (k : Bytes) (v : Value) (e : Option Int) : Db :=
  let db' := (db.get k).1
  { db' with dict := setRaw db'.dict k ⟨v, e⟩ }

/-- `list(db)` : purge, then the keys in dict order -/
def keys (db : Db) : Db × List Bytes :=
  let p := db.purge
  (p, p.dict.map Prod.fst)

end Db
end FR
