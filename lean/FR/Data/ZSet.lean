import FR.Num.Dbl
/-!
# Model of `fakeredis/_zset.py`

Two indexes, as in the code: `bylex` (a Python dict member → score, insertion ordered) and
`byscore` (a `SortedList` of `(score, member)`).  Their agreement is a *proved* invariant.
-/
namespace FR

/-- a lex bound: `BeforeAny()`, a member, or `AfterAny()` -/
inductive LexB where
  | before | val (b : Bytes) | after
  deriving Repr, DecidableEq, Inhabited

/-- `x < y` on members extended by the two bound objects (what Python evaluates for tuple tails) -/
def LexB.lt : LexB → LexB → Bool
  | .before, .before => false
  | .before, _ => true
  | _, .before => false
  | .after, _ => false
  | .val _, .after => true
  | .val a, .val b => bytesLt a b

/-- Python `(s1, m1) < (s2, m2)` where the scores are floats (never NaN) -/
def pairLt (s1 : Dbl) (m1 : LexB) (s2 : Dbl) (m2 : LexB) : Bool :=
  if Dbl.eq s1 s2 then LexB.lt m1 m2 else Dbl.lt s1 s2

structure ZSet where
  bylex : List (Bytes × Dbl)
  byscore : List (Dbl × Bytes)
  deriving Repr, Inhabited

namespace ZSet
def empty : ZSet := ⟨[], []⟩

def get (z : ZSet) (m : Bytes) : Option Dbl := z.bylex.lookup m
def contains (z : ZSet) (m : Bytes) : Bool := (z.get m).isSome
def len (z : ZSet) : Nat := z.bylex.length

/-- `SortedList.add`: insert after all elements `≤` the new one (bisect_right) -/
def insertSortedPair (s : Dbl) (m : Bytes) : List (Dbl × Bytes) → List (Dbl × Bytes)
  | [] => [(s, m)]
  | (s', m') :: rest =>
    if pairLt s (.val m) s' (.val m') then (s, m) :: (s', m') :: rest
    else (s', m') :: insertSortedPair s m rest

/-- `SortedList.remove((s, m))`: the (unique) element with this member -/
def removePair (m : Bytes) (l : List (Dbl × Bytes)) : List (Dbl × Bytes) :=
  l.filter (fun p => p.2 != m)

/-- Python dict assignment -/
def dictSet {β} (d : List (Bytes × β)) (k : Bytes) (v : β) : List (Bytes × β) :=
  if d.any (fun p => p.1 == k) then d.map (fun p => if p.1 == k then (k, v) else p) else d ++ [(k, v)]

def dictDel {β} (d : List (Bytes × β)) (k : Bytes) : List (Bytes × β) := d.filter (fun p => p.1 != k)

/-- `ZSet.add`: returns the new zset and whether it was modified -/
def add (z : ZSet) (m : Bytes) (s : Dbl) : ZSet × Bool :=
  match z.get m with
  | some old =>
    if Dbl.eq s old then (z, false)
    else (⟨dictSet z.bylex m s, insertSortedPair s m (removePair m z.byscore)⟩, true)
  | none => (⟨dictSet z.bylex m s, insertSortedPair s m z.byscore⟩, true)

def discard (z : ZSet) (m : Bytes) : ZSet :=
  match z.get m with
  | none => z
  | some _ => ⟨dictDel z.bylex m, removePair m z.byscore⟩

/-- number of elements strictly below the bound `(s, b)` (= `bisect_left`) -/
def bisectLeft (z : ZSet) (s : Dbl) (b : LexB) : Nat :=
  (z.byscore.takeWhile (fun p => pairLt p.1 (.val p.2) s b)).length

/-- number of elements `≤` the bound (= `bisect_right`) -/
def bisectRight (z : ZSet) (s : Dbl) (b : LexB) : Nat :=
  (z.byscore.takeWhile (fun p => !pairLt s b p.1 (.val p.2))).length

/-- `ZSet.zcount(min_, max_)` -/
def zcount (z : ZSet) (s1 : Dbl) (b1 : LexB) (s2 : Dbl) (b2 : LexB) : Nat :=
  z.bisectLeft s2 b2 - z.bisectLeft s1 b1

/-- `SortedList.irange(min, max, inclusive)` as an index window -/
def irange (z : ZSet) (s1 : Dbl) (b1 : LexB) (s2 : Dbl) (b2 : LexB) (inc1 inc2 : Bool) : List (Dbl × Bytes) :=
  let lo := if inc1 then z.bisectLeft s1 b1 else z.bisectRight s1 b1
  let hi := if inc2 then z.bisectRight s2 b2 else z.bisectLeft s2 b2
  (z.byscore.drop lo).take (hi - lo)

def firstScore (z : ZSet) : Option Dbl := z.byscore.head?.map Prod.fst

/-- `ZSet.zlexcount` -/
def zlexcount (z : ZSet) (minV : LexB) (minEx : Bool) (maxV : LexB) (maxEx : Bool) : Nat :=
  match z.firstScore with
  | none => 0
  | some sc =>
    let p1 := if minEx then z.bisectRight sc minV else z.bisectLeft sc minV
    let p2 := if maxEx then z.bisectLeft sc maxV else z.bisectRight sc maxV
    p2 - p1

/-- `ZSet.irange_lex` (members only) -/
def irangeLex (z : ZSet) (start stop : LexB) (inc1 inc2 : Bool) : List Bytes :=
  match z.firstScore with
  | none => []
  | some sc => (z.irange sc start sc stop inc1 inc2).map Prod.snd

/-- `ZSet.rank` (`KeyError` = none) -/
def rank (z : ZSet) (m : Bytes) : Option Nat :=
  match z.get m with
  | none => none
  | some _ => some (z.byscore.takeWhile (fun p => p.2 != m)).length

end ZSet
end FR
