/-!
# Static lock discipline of the socket classes (property C12)

`tools/gen_locks.py` extracts, for every method of `FakeSocket` / `AsyncFakeSocket` (and every function nested in one),
its accesses to shared state and its call edges, each with the flag "lexically inside `with <server>.lock:`"
(`FR/Generated/Locks.lean`).  This file is the checker: the functions that can be *entered without the lock held*
(`exposed`: reachable from the roots through call edges that are not under the lock) must not touch shared state outside
a `with`-block, except for the accesses listed as benign.  `FR/Props/C12l.lean` proves what a passed check means for
every call path of any length; `FR/Bridge/Locks.lean` runs it on the generated tables.

Core Lean only.
-/
namespace FR.LockTable

structure Fn where
  name : String
  /-- may be entered from outside without the lock (public method, constructor, coroutine, deferred callback) -/
  root : Bool
  /-- (atom, lexically under the lock) -/
  accesses : List (String × Bool)
  /-- (callee, lexically under the lock) -/
  calls : List (String × Bool)
  deriving Repr, DecidableEq

abbrev Table := List Fn

def roots (t : Table) : List String := (t.filter (·.root)).map (·.name)

/-- callees of the not-locked call edges of the functions named in `X` -/
def unlockedCallees (t : Table) (X : List String) : List String :=
  (t.filter (fun f => X.contains f.name)).flatMap fun f => (f.calls.filter (fun c => !c.2)).map (·.1)

def addNew (X : List String) : List String → List String
  | [] => X
  | y :: ys => if X.contains y then addNew X ys else addNew (X ++ [y]) ys

/-- `n` rounds of closing `X` under not-locked call edges -/
def close (t : Table) : Nat → List String → List String
  | 0, X => X
  | n + 1, X => close t n (addNew X (unlockedCallees t X))

/-- the functions that can be running while their thread does not hold the lock: twelve rounds from the roots (a candidate
only - `closed` checks that it is a fixed point, so too few rounds fail the check instead of passing it) -/
def exposed (t : Table) : List String := close t 12 (roots t)

/-- `X` contains the roots and is closed under not-locked call edges -/
def closed (t : Table) (X : List String) : Bool :=
  (roots t).all (X.contains ·) &&
  t.all fun f => !X.contains f.name || f.calls.all fun c => c.2 || X.contains c.1

/-- every access of a function in `X` is under the lock or benign -/
def clean (benign : List (String × String)) (t : Table) (X : List String) : Bool :=
  t.all fun f => !X.contains f.name || f.accesses.all fun a => a.2 || benign.contains (f.name, a.1) || benign.contains ("*", a.1)

def disciplined (benign : List (String × String)) (t : Table) : Bool :=
  closed t (exposed t) && clean benign t (exposed t)

/-- the accesses outside the lock that are deliberate, each with the reason the code gives:
* `__init__` looks up database 0 before the connection exists for anybody else (database 0 is created with the server, fix
  F13); the emulated `version` is set once by the server's constructor and never written again, so reading it anywhere is
  benign (`"*"` = any function);
* `sendall` reads the `connected` flag (a plain attribute read; the outage emulation is not synchronised by design);
* `close` appends to `closed_sockets` ("might be called from `__del__` at any time, hence we can't safely take the
  server lock; we rely on list.append being atomic") -/
def benign : List (String × String) :=
  [("__init__", "S:dbs"), ("*", "S:version"), ("sendall", "S:connected"), ("close", "S:closed_sockets")]

/-- the table is not trivial: the dispatcher calls the runner under the lock only, refreshes the clock and reaps closed
sockets under the lock, has no access outside it; the runner reaches at least a hundred command bodies; no command body is a
root or exposed; the dispatcher itself and the reply queue are exposed -/
def meaningful (t : Table) : Bool :=
  (t.any fun f => f.name == "_process_command" && f.calls.contains ("_run_command", true) && !f.calls.contains ("_run_command", false)
      && f.accesses.contains ("T", true) && f.accesses.contains ("S:closed_sockets", true) && f.accesses.all (·.2)) &&
  (t.any fun f => f.name == "_run_command" && decide (100 ≤ f.calls.length)) &&
  (t.all fun f => !f.accesses.contains ("body", false) || (!f.root && !(exposed t).contains f.name)) &&
  (exposed t).contains "_process_command" &&
  ((exposed t).contains "put_response" || (exposed t).contains "A:put_response")

end FR.LockTable
