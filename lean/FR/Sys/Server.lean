import FR.Cmd.Run
/-!
# The server: connections, dispatcher (`_process_command`), generic runner (`_run_command`),
the bodies that touch the database or the server, MULTI/EXEC/WATCH, pub/sub, blocking passes.
-/
namespace FR

structure Parked where
  /-- "blpop" | "brpop" | "brpoplpush" -/
  kind : String
  keys : List Bytes
  db : Nat
  /-- absolute deadline in ticks (`none` = wait for ever) -/
  deadline : Option Int
  woken : Bool := false
  deriving Repr, Inhabited

structure Conn where
  id : Nat
  db : Nat := 0
  tx : Option (List (String × List Bytes)) := none
  txFailed : Bool := false
  inTx : Bool := false
  watchNotified : Bool := false
  watches : List (Nat × Bytes) := []
  pubsub : Nat := 0
  buf : Bytes := []
  paused : Bool := false
  closed : Bool := false
  dead : Bool := false
  parked : Option Parked := none
  deriving Repr, Inhabited

structure Server where
  version : Nat := 7
  time : Int := 0
  dbs : List Dict := List.replicate 16 []
  subs : List (Bytes × List Nat) := []
  psubs : List (Bytes × List Nat) := []
  scripts : List (Bytes × Bytes) := []
  lastsave : Int := 0
  connected : Bool := true
  closedSockets : List Nat := []
  conns : List Conn := []
  deriving Repr, Inhabited

structure Sys where
  srv : Server := {}
  /-- emitted replies, newest first -/
  out : List (Nat × Reply) := []
  clocks : List Int := []
  picks : List (List Bytes) := []
  /-- the model could not follow the hints (ran out of clock readings, illegal random pick) -/
  fault : Option String := none
  /-- an exception other than the client's Redis errors escaped `sendall` -/
  crashed : Option String := none
  deriving Repr, Inhabited

abbrev M := StateM Sys

namespace M

def getConn (c : Nat) : M Conn := do
  return ((← get).srv.conns.find? (·.id == c)).getD { id := c }

def modifyConn (c : Nat) (f : Conn → Conn) : M Unit :=
  modify fun s => { s with srv := { s.srv with conns := s.srv.conns.map fun x => if x.id == c then f x else x } }

def getDb (i : Nat) : M Db := do
  let s ← get
  return ⟨s.srv.dbs.getD i [], s.srv.time⟩

def setDb (i : Nat) (db : Db) : M Unit :=
  modify fun s => { s with srv := { s.srv with dbs := s.srv.dbs.set i db.dict } }

def emit (c : Nat) (r : Reply) : M Unit := do
  let conn ← getConn c
  if !conn.closed then modify fun s => { s with out := (c, r) :: s.out }

def fault (msg : String) : M Unit :=
  modify fun s => if s.fault.isNone then { s with fault := some msg } else s

def nextClock : M Int := do
  let s ← get
  match s.clocks with
  | t :: rest => set { s with clocks := rest }; return t
  | [] => fault "clock readings exhausted"; return s.srv.time

/-- `Database.notify_watch(key)` of database `d` -/
def notifyWatch (d : Nat) (key : Bytes) : M Unit :=
  modify fun s => { s with srv := { s.srv with conns := s.srv.conns.map fun x =>
    let x := if x.watches.contains (d, key) then { x with watchNotified := true } else x
    match x.parked with
    | some p => if p.db == d then { x with parked := some { p with woken := true } } else x
    | none => x } }

/-- `_clear_watches` -/
def clearWatches (c : Nat) : M Unit :=
  modifyConn c fun x => { x with watchNotified := false, watches := [] }

def writebackAll (d : Nat) (cis : List CI) : M Unit :=
  cis.forM fun ci => do
    let db ← getDb d
    let (db', notified) := ci.writeback db
    setDb d db'
    if notified then notifyWatch d ci.key

/-- purge + live keys of database `d` (what `list(db)` / `for key in db` sees) -/
def liveKeys (d : Nat) : M (List Bytes) := do
  let db ← getDb d
  let (db', ks) := db.keys
  setDb d db'
  return ks

/-- `Database.clear` -/
def clearDb (d : Nat) : M Unit := do
  let ks ← liveKeys d
  ks.forM (notifyWatch d)
  setDb d ⟨[], 0⟩

def typeNameOf (db : Db) (k : Bytes) : Bytes :=
  match db.dict.lookup k with
  | some it => strBytes it.value.ty.name
  | none => strBytes "none"

end M

open M

/-! ## pub/sub tables: insertion-ordered dict `name → set of connections` -/

def tblSubscribe (t : List (Bytes × List Nat)) (name : Bytes) (c : Nat) : List (Bytes × List Nat) × Bool :=
  match t.lookup name with
  | some cs => if cs.contains c then (t, false) else (t.map fun p => if p.1 == name then (p.1, p.2 ++ [c]) else p, true)
  | none => (t ++ [(name, [c])], true)

def tblUnsubscribe (t : List (Bytes × List Nat)) (name : Bytes) (c : Nat) : List (Bytes × List Nat) × Bool :=
  match t.lookup name with
  | some cs =>
    if cs.contains c then
      let cs' := cs.filter (· != c)
      (if cs'.isEmpty then t.filter (fun p => p.1 != name) else t.map fun p => if p.1 == name then (p.1, cs') else p, true)
    else (t, false)
  | none => (t, false)

def subscribeGen (c : Nat) (pattern : Bool) (names : List Bytes) : M Unit :=
  names.forM fun name => do
    let s ← get
    let t := if pattern then s.srv.psubs else s.srv.subs
    let (t', added) := tblSubscribe t name c
    modify fun s => { s with srv := if pattern then { s.srv with psubs := t' } else { s.srv with subs := t' } }
    if added then modifyConn c fun x => { x with pubsub := x.pubsub + 1 }
    let conn ← getConn c
    emit c (.arr [.bulk (strBytes (if pattern then "psubscribe" else "subscribe")), .bulk name, .int conn.pubsub])

def unsubscribeGen (c : Nat) (pattern : Bool) (names : List Bytes) : M Unit := do
  let mtype := strBytes (if pattern then "punsubscribe" else "unsubscribe")
  let s ← get
  let t := if pattern then s.srv.psubs else s.srv.subs
  let explicit := !names.isEmpty
  let names := if explicit then names else (t.filter fun p => p.2.contains c).map Prod.fst
  if !explicit && names.isEmpty then
    let conn ← getConn c
    emit c (.arr [.bulk mtype, .nil, .int conn.pubsub])
  names.forM fun name => do
    let s ← get
    let t := if pattern then s.srv.psubs else s.srv.subs
    let (t', removed) := tblUnsubscribe t name c
    modify fun s => { s with srv := if pattern then { s.srv with psubs := t' } else { s.srv with subs := t' } }
    if removed then modifyConn c fun x => { x with pubsub := x.pubsub - 1 }
    let conn ← getConn c
    emit c (.arr [.bulk mtype, .bulk name, .int conn.pubsub])

/-- the deliveries of one PUBLISH, in the order the code makes them: `(receiver, message)` -/
def deliveries (srv : Server) (channel message : Bytes) : List (Nat × Reply) :=
  ((srv.subs.lookup channel).getD []).map (fun c => (c, Reply.arr [.bulk (strBytes "message"), .bulk channel, .bulk message]))
  ++ (srv.psubs.filter (fun p => Glob.globMatch p.1 channel)).flatMap fun p =>
       p.2.map fun c => (c, Reply.arr [.bulk (strBytes "pmessage"), .bulk p.1, .bulk channel, .bulk message])

def publish (channel message : Bytes) : M Nat := do
  let ds := deliveries (← get).srv channel message
  ds.forM fun d => emit d.1 d.2
  return ds.length

/-! ## blocking pops: one pass -/

/-- `_bpop_pass` -/
def bpopPass (d : Nat) (left : Bool) (first : Bool) : List Bytes → M (Except Err (Option Reply))
  | [] => return .ok none
  | key :: rest => do
    let db ← getDb d
    let (db', item) := db.get key
    setDb d db'
    match item with
    | none => bpopPass d left first rest
    | some it =>
      match it.value with
      | .list l =>
        -- a stored list is never empty
        let (popped, remaining) := if left then Cmd.popLeftN l 1 else Cmd.popRightN l 1
        let ci : CI := { key := key, val := some (.list remaining), expireat := it.expireat, modified := true }
        writebackAll d [ci]
        return .ok (some (.arr [.bulk key, Reply.ofOptBulk popped.head?]))
      | _ => if first then return .error Msgs.WRONGTYPE_MSG else bpopPass d left first rest

/-- `_brpoplpush_pass` -/
def brpoplpushPass (d : Nat) (src dst : Bytes) (first : Bool) : M (Except Err (Option Reply)) := do
  let db ← getDb d
  let (db', sitem) := db.get src
  setDb d db'
  match sitem with
  | none => return .ok none
  | some sit =>
    match sit.value with
    | .list sl =>
      let db ← getDb d
      let (db', ditem) := db.get dst
      setDb d db'
      let dstList : Option (List Bytes × Option Int) := match ditem with
        | none => some ([], none)
        | some dit => match dit.value with
          | .list dl => some (dl, dit.expireat)
          | _ => none
      match dstList with
      | none => return .error Msgs.WRONGTYPE_MSG
      | some (dl, dexp) =>
        let (popped, remaining) := Cmd.popRightN sl 1
        match popped.head? with
        | none => return .ok none
        | some el =>
          if src == dst then
            writebackAll d [{ key := src, val := some (.list (el :: remaining)), expireat := sit.expireat, modified := true }]
          else
            writebackAll d [{ key := src, val := some (.list remaining), expireat := sit.expireat, modified := true },
                            { key := dst, val := some (.list (el :: dl)), expireat := dexp, modified := true }]
          return .ok (some (.bulk el))
    | _ => if first then return .error Msgs.WRONGTYPE_MSG else return .ok none

/-- `_blocking` as the single-threaded harness sees it (the condition's `wait` reports a time-out at
once), or parking the connection when `park` is set (scheduler harness, C11). -/
def blocking (c : Nat) (park : Bool) (kind : String) (keys : List Bytes) (timeout : Int)
    (pass : Bool → M (Except Err (Option Reply))) : M (Except Err (Option Reply)) := do
  match ← pass true with
  | .error e => return .error e
  | .ok (some r) => return .ok (some r)
  | .ok none =>
    let conn ← getConn c
    if conn.inTx then return .ok (some .nil)
    else
      let deadline ← if timeout != 0 then do
          let t ← nextClock
          pure (some (t + timeout * TICKS))
        else pure none
      if park then
        -- first turn of the loop: `timeout = deadline - time.time()`; a positive timeout is assumed (timeout ≥ 1 s)
        if timeout != 0 then let _ ← nextClock
        modifyConn c fun x => { x with parked := some { kind := kind, keys := keys, db := conn.db, deadline := deadline } }
        return .ok none
      else
        if timeout != 0 then let _ ← nextClock
        return .ok (some .nil)

/-! ## SORT -/

def findSub (needle : Bytes) (hay : Bytes) : Option Nat :=
  let rec go : Bytes → Nat → Option Nat
    | [], n => if needle.isEmpty then some n else none
    | h :: t, n => if (h :: t).take needle.length == needle then some n else go t (n + 1)
  go hay 0

/-- `_lookup_key` -/
def lookupKey (d : Nat) (key pattern : Bytes) : M (Option Bytes) := do
  if pattern == [35] then return some key
  match findSub [42] pattern with
  | none => return none
  | some p =>
    let pref := pattern.take p
    let suffix := pattern.drop (p + 1)
    -- suffix.find(b'->', 0, -1): search in suffix[0:-1]
    let arrow := findSub [45, 62] (suffix.take (suffix.length - 1))
    let (suffix, field) : Bytes × Option Bytes := match arrow with
      | some a => (suffix.take a, some (suffix.drop (a + 2)))
      | none => (suffix, none)
    let newKey := pref ++ key ++ suffix
    let db ← getDb d
    let (db', item) := db.get newKey
    setDb d db'
    match item with
    | none => return none
    | some it =>
      match field, it.value with
      | some f, .hash h => return h.lookup f
      | some _, _ => return none
      | none, .str b => return some b
      | none, _ => return none

structure SortOpts where
  desc : Bool := false
  alpha : Bool := false
  limitStart : Int := 0
  limitCount : Int := -1
  store : Option Bytes := none
  sortby : Option Bytes := none
  dontsort : Bool := false
  gets : List Bytes := []

def parseSortOpts : List Bytes → SortOpts → Except Err SortOpts
  | [], o => .ok o
  | a :: rest, o =>
    if casematch a "asc" then parseSortOpts rest { o with desc := false }
    else if casematch a "desc" then parseSortOpts rest { o with desc := true }
    else if casematch a "alpha" then parseSortOpts rest { o with alpha := true }
    else if casematch a "limit" && rest.length ≥ 2 then
      match rest with
      | x :: y :: rest' =>
        match Conv.int x, Conv.int y with
        | .ok s, .ok c => parseSortOpts rest' { o with limitStart := s, limitCount := c }
        | _, _ => .error Msgs.SYNTAX_ERROR_MSG
      | _ => .error Msgs.SYNTAX_ERROR_MSG
    else if casematch a "store" && rest.length ≥ 1 then
      match rest with
      | x :: rest' => parseSortOpts rest' { o with store := some x }
      | [] => .error Msgs.SYNTAX_ERROR_MSG
    else if casematch a "by" && rest.length ≥ 1 then
      match rest with
      | x :: rest' => parseSortOpts rest' { o with sortby := some x, dontsort := !x.contains 42 }
      | [] => .error Msgs.SYNTAX_ERROR_MSG
    else if casematch a "get" && rest.length ≥ 1 then
      match rest with
      | x :: rest' => parseSortOpts rest' { o with gets := o.gets ++ [x] }
      | [] => .error Msgs.SYNTAX_ERROR_MSG
    else .error Msgs.SYNTAX_ERROR_MSG

/-- stable insertion sort with a `le` test (Python's `list.sort` is stable) -/
def stableSort {α} (le : α → α → Bool) (l : List α) : List α :=
  l.foldr (fun x acc =>
    let rec ins : List α → List α
      | [] => [x]
      | y :: ys => if le x y then x :: y :: ys else y :: ins ys
    ins acc) []

/-- alpha sort key: `BeforeAny()` for a missing weight -/
def alphaLe (a b : Option Bytes) : Bool :=
  match a, b with
  | none, _ => true
  | some _, none => false
  | some x, some y => bytesLe x y

def sortCmd (c : Nat) (d : Nat) (args : List Arg) (cis : List CI) : M (Except Err (Reply × List CI)) := do
  match args with
  | .key k :: rest =>
    let key := ciAt cis k
    let wrong := match key.val with
      | none => false
      | some (.set _) | some (.list _) | some (.zset _) => false
      | some _ => true
    if wrong then return .error Msgs.WRONGTYPE_MSG
    -- `list(key.value)`: for a set the iteration order is a recorded hint (taken on entry, as the harness records it)
    let items? : Option (List Bytes) ← match key.val with
      | none => pure (some [])
      | some (.list l) => pure (some l)
      | some (.zset z) => pure (some (z.byscore.map Prod.snd))
      | some (.set s) => do
        let st ← get
        match st.picks with
        | p :: restp =>
          if p.length == s.length && p.all s.contains && s.all p.contains then
            set { st with picks := restp }; pure (some p)
          else pure none
        | [] => pure none
      | some _ => pure (some [])
    match parseSortOpts (Cmd.rawArgs rest) {} with
    | .error e => return .error e
    | .ok o =>
      match items? with
      | none => fault "sort: set order hint missing or not a permutation"; return .error "model: bad hint"
      | some items =>
        let n : Int := items.length
        let start := max o.limitStart 0
        let stop := if o.limitCount < 0 then n else start + o.limitCount
        let (start, stop) := if start ≥ n then (n - 1, n - 1) else (start, stop)
        let stop := min stop n
        let gets := if o.gets.isEmpty then [[35]] else o.gets
        let sortby := o.sortby.getD [35]
        -- sorting
        let sorted? : Except Err (List Bytes) ←
          if !o.dontsort then
            if o.alpha then do
              let keyed ← items.mapM fun v => do
                let w ← lookupKey d v sortby
                pure (w, v)
              let s := stableSort (fun (a b : Option Bytes × Bytes) => alphaLe a.1 b.1) keyed
              let s := if o.desc then
                  -- list.sort(reverse=True) keeps the original order of equal elements
                  (stableSort (fun (a b : Option Bytes × Bytes) => alphaLe a.1 b.1) keyed.reverse).reverse
                else s
              pure (.ok (s.map Prod.snd))
            else do
              let mut keyed : List (Dbl × Bytes) := []
              let mut err : Option Err := none
              for v in items do
                if err.isNone then
                  let w ← lookupKey d v sortby
                  match w with
                  | none => keyed := keyed ++ [(Dbl.zero, v)]
                  | some b =>
                    match Conv.sortFloat b with
                    | .ok x => keyed := keyed ++ [(x, v)]
                    | .error e => err := some e
              match err with
              | some e => pure (.error e)
              | none =>
                let le := fun (a b : Dbl × Bytes) => !pairLt b.1 (.val b.2) a.1 (.val a.2)
                let s := if o.desc then (stableSort le keyed.reverse).reverse else stableSort le keyed
                pure (.ok (s.map Prod.snd))
          else
            match key.val with
            | some (.list _) | some (.zset _) => pure (.ok (if o.desc then items.reverse else items))
            | _ => pure (.ok items)
        match sorted? with
        | .error e => return .error e
        | .ok sorted =>
          let rows := Py.slice sorted start stop
          let mut out : List (Option Bytes) := []
          for row in rows do
            for g in gets do
              let v ← lookupKey d row g
              out := out ++ [if o.store.isSome && v.isNone then some [] else v]
          match o.store with
          | some dst =>
            let db ← getDb d
            let (db', item) := db.get dst
            setDb d db'
            let _ := item
            let vals := out.map fun x => x.getD []
            let ci : CI := ({ key := dst, val := none, expireat := none } : CI).setValue (some (.list vals))
            writebackAll d [ci]
            let _ := c
            return .ok (.int vals.length, cis)
          | none => return .ok (.arr (out.map Reply.ofOptBulk), cis)
  | _ => return .error "model: bad args"

/-! ## ZUNIONSTORE / ZINTERSTORE -/

def zsetOfValue : Value → Except Err ZSet
  | .set s => .ok (s.foldl (fun z m => (z.add m Dbl.one).1) ZSet.empty)
  | .zset z => .ok z
  | _ => .error Msgs.WRONGTYPE_MSG

def zunioninter (union : Bool) (d : Nat) (args : List Arg) (cis : List CI) : M (Except Err (Reply × List CI)) := do
  match args with
  | .key dk :: .int numkeys :: rest =>
    let raw := Cmd.rawArgs rest
    if numkeys < 1 then return .error Msgs.ZUNIONSTORE_KEYS_MSG
    if numkeys > raw.length then return .error Msgs.SYNTAX_ERROR_MSG
    let nk := numkeys.toNat
    -- source lookups (lazy expiry) and conversion
    let mut sets : List ZSet := []
    for key in raw.take nk do
      let db ← getDb d
      let (db', item) := db.get key
      setDb d db'
      match item with
      | none => sets := sets ++ [ZSet.empty]
      | some it =>
        match zsetOfValue it.value with
        | .ok z => sets := sets ++ [z]
        | .error e => return .error e
    -- options
    let mut weights : List Dbl := List.replicate nk Dbl.one
    let mut aggregate : Bytes := strBytes "sum"
    let mut opts := raw.drop nk
    let mut fuel := opts.length + 1
    while !opts.isEmpty && fuel > 0 do
      fuel := fuel - 1
      match opts with
      | a :: rest' =>
        if casematch a "weights" && rest'.length ≥ nk then
          let ws := rest'.take nk
          match ws.mapM Conv.float with
          | .ok w => weights := w; opts := rest'.drop nk
          | .error e => return .error e
        else if casematch a "aggregate" && rest'.length ≥ 1 then
          match rest' with
          | v :: rest'' =>
            aggregate := casenorm v
            if aggregate != strBytes "sum" && aggregate != strBytes "min" && aggregate != strBytes "max" then
              return .error Msgs.SYNTAX_ERROR_MSG
            opts := rest''
          | [] => return .error Msgs.SYNTAX_ERROR_MSG
        else return .error Msgs.SYNTAX_ERROR_MSG
      | [] => pure ()
    -- members of the result
    let first := (sets.headD ZSet.empty).bylex.map Prod.fst
    let members := sets.tail.foldl (fun acc z =>
      if union then Cmd.setUnion acc (z.bylex.map Prod.fst) else acc.filter z.contains) first
    -- sorted by cardinality (stable)
    let pairs := stableSort (fun (a b : ZSet × Dbl) => a.1.len ≤ b.1.len) (sets.zip weights)
    let mut out : List (Bytes × Dbl) := []
    for (z, w) in pairs do
      for (m, s0) in z.bylex do
        let mut score := Dbl.mul s0 w
        if union && score.isNaN then score := Dbl.zero
        if members.contains m then
          match out.lookup m with
          | some old =>
            if aggregate == strBytes "sum" then
              score := Dbl.add score old
              if score.isNaN then score := Dbl.zero
            else if aggregate == strBytes "max" then score := Dbl.pyMax old score
            else score := Dbl.pyMin old score
          | none => pure ()
          if score.isNaN then score := Dbl.zero
          out := ZSet.dictSet out m score
    let outZ := out.foldl (fun z p => (z.add p.1 p.2).1) ZSet.empty
    let dest := ciAt cis dk
    return .ok (.int outZ.len, cis.set dk (dest.setValue (some (.zset outZ))))
  | _ => return .error "model: bad args"

end FR
