import FR.Sys.Server
/-!
# `_run_command`, the special bodies' dispatch, EXEC, `_process_command`, the request parser
-/
namespace FR
open M

/-- run-time switches of one event -/
structure Mode where
  /-- park a blocking pop that cannot be served (scheduler harness) instead of timing out at once -/
  park : Bool := false
  /-- asyncio front-end (`AsyncFakeSocket`): a blocking pop that is not served pauses the parser and is re-tried by a task -/
  async : Bool := false
  deriving Repr, Inhabited

def syntaxErr : Except Err (Option Reply × List CI) := .error Msgs.SYNTAX_ERROR_MSG

/-- the nested `_run_command` used by EXEC (and by scripts) for the inner commands -/
abbrev Inner := Sig → List Bytes → M (Option Reply)

/-- `_run_command`: `none` = `NoResponse` -/
def runWith (special : Mode → Nat → String → List Arg → List CI → M (Except Err (Option Reply × List CI)))
    (mode : Mode) (c : Nat) (sig : Sig) (raw : List Bytes) (fromScript : Bool) : M (Option Reply) := do
  let conn ← getConn c
  -- a subscribed connection is refused before the arguments are looked at
  if conn.pubsub > 0 && !SigTable.pubsubAllowed.contains sig.name then
    return some (.err (strBytes Msgs.BAD_COMMAND_IN_PUBSUB_MSG))
  let d := conn.db
  let db ← getDb d
  let gate := runGate sig fromScript (conn.pubsub > 0)
  match Cmd.regular sig.name with
  | some body =>
    -- regular command: a pure function of the selected database
    let s ← get
    let ctx : Ctx := { version := s.srv.version, time := s.srv.time, dbnum := d, inTx := conn.inTx, picks := s.picks }
    let o := runRegular sig body ctx gate raw db
    setDb d o.db
    modify fun s => { s with picks := s.picks.drop o.picksUsed }
    match o.fault with | some f => fault f | none => pure ()
    o.notified.forM (notifyWatch d)
    return some o.reply
  | none =>
    let (db', res) := sig.apply raw db
    setDb d db'
    match res with
    | .error e => return some (.err (strBytes e))
    | .ok (.short r) => return some r
    | .ok (.ok args cis) =>
      match gate with
      | some e => return some (.err (strBytes e))
      | none =>
        match ← special mode c sig.name args cis with
        | .error e =>
          if e.startsWith "model:" then fault e
          writebackAll d cis
          return some (.err (strBytes e))
        | .ok (r, cis') =>
          writebackAll d cis'
          return r

abbrev SpecialOut := Except Err (Option Reply × List CI)

def okR (r : Reply) (cis : List CI) : M SpecialOut := pure (.ok (some r, cis))

def selectCmd (c : Nat) (args : List Arg) (cis : List CI) : M SpecialOut := do
  match args with
  | [.int i] => modifyConn c fun x => { x with db := i.toNat }; okR .ok cis
  | _ => return .error "model: bad args"

def swapdbCmd (args : List Arg) (cis : List CI) : M SpecialOut := do
  match args with
  | [.int i1, .int i2] =>
    if i1 != i2 then
      let a := i1.toNat
      let b := i2.toNat
      let da ← getDb a
      let db ← getDb b
      setDb a db
      setDb b da
      let ka ← liveKeys a
      let kb ← liveKeys b
      (Cmd.setUnion ka kb).forM fun key => do notifyWatch a key; notifyWatch b key
    okR .ok cis
  | _ => return .error "model: bad args"

def moveCmd (d : Nat) (args : List Arg) (cis : List CI) : M SpecialOut := do
  match args with
  | [.key k, .int dst] =>
    let key := ciAt cis k
    if dst.toNat == d then return .error Msgs.SRC_DST_SAME_MSG
    if !key.truthy then return .ok (some (.int 0), cis)
    let ddb ← getDb dst.toNat
    let (ddb', ditem) := ddb.get key.key
    setDb dst.toNat ddb'
    if ditem.isSome then return .ok (some (.int 0), cis)
    let sdb ← getDb d
    let (sdb', sitem) := sdb.get key.key
    setDb d sdb'
    match sitem with
    | none => return .error "model: move source vanished"
    | some it =>
      let ddb ← getDb dst.toNat
      setDb dst.toNat { ddb with dict := Db.setRaw ddb.dict key.key it }
      notifyWatch dst.toNat key.key
      return .ok (some (.int 1), cis.set k (key.setValue none))
  | _ => return .error "model: bad args"

def randomkeyCmd (d : Nat) (cis : List CI) : M SpecialOut := do
  let ks ← liveKeys d
  if ks.isEmpty then okR .nil cis
  else
    let s ← get
    match s.picks with
    | [x] :: rest =>
      if ks.contains x then
        set { s with picks := rest }
        okR (.bulk x) cis
      else fault "randomkey: pick is not a live key"; return .error "model: bad hint"
    | _ => fault "randomkey: no pick"; return .error "model: bad hint"

def scanCmd (d : Nat) (args : List Arg) (cis : List CI) : M SpecialOut := do
  match args with
  | .int cursor :: rest =>
    let ks ← liveKeys d
    let db ← getDb d
    match Cmd.scanReply (sortBy bytesLt ks) id (typeNameOf db) true cursor (Cmd.rawArgs rest) (fun p => p.map .bulk) with
    | .ok r => okR r cis
    | .error e => return .error e
  | _ => return .error "model: bad args"

def flushArgsOk (raw : List Bytes) : Bool :=
  raw.isEmpty || (raw.length == 1 && casematch (raw.headD []) "async")

def multiCmd (c : Nat) (cis : List CI) : M SpecialOut := do
  let conn ← getConn c
  if conn.tx.isSome then return .error Msgs.MULTI_NESTED_MSG
  modifyConn c fun x => { x with tx := some [], txFailed := false }
  okR .ok cis

def discardCmd (c : Nat) (cis : List CI) : M SpecialOut := do
  let conn ← getConn c
  if conn.tx.isNone then return .error (Msgs.fmt1 Msgs.WITHOUT_MULTI_MSG "DISCARD")
  modifyConn c fun x => { x with tx := none, txFailed := false }
  clearWatches c
  okR .ok cis

/-- run the queued commands in order with the nested runner; `inTx` is set around each -/
def runQueue (inner : Inner) (c : Nat) : List (String × List Bytes) → M (List (Option Reply))
  | [] => return []
  | (fname, fargs) :: rest => do
    let r ← match SigTable.find fname with
      | none => do fault "exec: unknown queued command"; pure none
      | some sig => do
        modifyConn c fun x => { x with inTx := true }
        let r ← inner sig fargs
        modifyConn c fun x => { x with inTx := false }
        pure r
    let rs ← runQueue inner c rest
    return r :: rs

def execCmd (inner : Inner) (c : Nat) (cis : List CI) : M SpecialOut := do
  let conn ← getConn c
  match conn.tx with
  | none => return .error (Msgs.fmt1 Msgs.WITHOUT_MULTI_MSG "EXEC")
  | some queue =>
    if conn.txFailed then
      modifyConn c fun x => { x with tx := none }
      clearWatches c
      return .error Msgs.EXECABORT_MSG
    modifyConn c fun x => { x with tx := none, txFailed := false }
    let wn := conn.watchNotified
    clearWatches c
    if wn then okR .nil cis
    else
      let results ← runQueue inner c queue
      if results.any Option.isNone then
        -- `assert valid_response_type(result)`: a NoResponse inside the EXEC array
        modify fun s => { s with crashed := some "AssertionError" }
        return .ok (none, cis)
      else okR (.arr (results.map fun r => r.getD .nil)) cis

def watchCmd (c : Nat) (d : Nat) (args : List Arg) (cis : List CI) : M SpecialOut := do
  let conn ← getConn c
  if conn.tx.isSome then return .error Msgs.WATCH_INSIDE_MULTI_MSG
  let ks := (Cmd.keyIdxs args).map fun i => (ciAt cis i).key
  modifyConn c fun x => { x with watches := ks.foldl (fun w key => if w.contains (d, key) then w else w ++ [(d, key)]) x.watches }
  okR .ok cis

/-- `AsyncFakeSocket._blocking`: no clock is read (the time-out lives in the event loop); parking pauses the parser -/
def blockingAsync (c : Nat) (kind : String) (keys : List Bytes)
    (pass : Bool → M (Except Err (Option Reply))) : M (Except Err (Option Reply)) := do
  match ← pass true with
  | .error e => return .error e
  | .ok (some r) => return .ok (some r)
  | .ok none =>
    let conn ← getConn c
    if conn.inTx then return .ok (some .nil)
    else
      modifyConn c fun x => { x with paused := true, parked := some { kind := kind, keys := keys, db := conn.db, deadline := none } }
      return .ok none

/-- EVAL / EVALSHA / SCRIPT (the script is executed by the host; see `FR/Sys/Script.lean`) -/
def scriptCmd (inner : Inner) (c : Nat) (name : String) (args : List Arg) (cis : List CI) : M SpecialOut := do
  let _ := (inner, c, args)
  fault ("model: command not modelled: " ++ name)
  return .error ("model: command not modelled: " ++ name) <|> .ok (none, cis)

/-- bodies that touch the database, the server or the connection -/
def special (inner : Inner) (mode : Mode) (c : Nat) (name : String) (args : List Arg) (cis : List CI) :
    M SpecialOut := do
  let conn ← getConn c
  let d := conn.db
  let raw := Cmd.rawArgs args
  match name with
  | "echo" => okR (.bulk (raw.headD [])) cis
  | "ping" =>
    if raw.length > 1 then return .error (Msgs.fmt1 Msgs.WRONG_ARGS_MSG "ping")
    else if conn.pubsub > 0 then okR (.arr [.bulk (strBytes "pong"), .bulk (raw.headD [])]) cis
    else match raw with
      | a :: _ => okR (.bulk a) cis
      | [] => okR .pong cis
  | "select" => selectCmd c args cis
  | "swapdb" => swapdbCmd args cis
  | "keys" =>
    match raw with
    | [p] =>
      let ks ← liveKeys d
      if p == [42] then okR (Reply.bulks ks) cis else okR (Reply.bulks (ks.filter (Glob.globMatch p))) cis
    | _ => return .error "model: bad args"
  | "move" => moveCmd d args cis
  | "randomkey" => randomkeyCmd d cis
  | "scan" => scanCmd d args cis
  | "sort" =>
    match ← sortCmd c d args cis with
    | .ok (r, cis') => return .ok (some r, cis')
    | .error e => return .error e
  | "dbsize" =>
    let ks ← liveKeys d
    okR (.int ks.length) cis
  | "flushdb" =>
    if !flushArgsOk raw then return .error Msgs.SYNTAX_ERROR_MSG
    clearDb d
    okR .ok cis
  | "flushall" =>
    if !flushArgsOk raw then return .error Msgs.SYNTAX_ERROR_MSG
    (List.range 16).forM clearDb
    okR .ok cis
  | "lastsave" => okR (.int (← get).srv.lastsave) cis
  | "save" =>
    let t ← nextClock
    modify fun s => { s with srv := { s.srv with lastsave := t / TICKS } }
    okR .ok cis
  | "bgsave" =>
    if raw.length > 1 || (raw.length == 1 && !casematch (raw.headD []) "schedule") then return .error Msgs.SYNTAX_ERROR_MSG
    let t ← nextClock
    modify fun s => { s with srv := { s.srv with lastsave := t / TICKS } }
    okR (.status (strBytes "Background saving started")) cis
  | "time" =>
    let t ← nextClock
    let us := roundHalfEven t 10
    okR (.arr [.bulk (intBytes (us / 1000000)), .bulk (intBytes (us % 1000000))]) cis
  | "multi" => multiCmd c cis
  | "discard" => discardCmd c cis
  | "exec" => execCmd inner c cis
  | "watch" => watchCmd c d args cis
  | "unwatch" => clearWatches c; okR .ok cis
  | "subscribe" => subscribeGen c false raw; return .ok (none, cis)
  | "psubscribe" => subscribeGen c true raw; return .ok (none, cis)
  | "unsubscribe" => unsubscribeGen c false raw; return .ok (none, cis)
  | "punsubscribe" => unsubscribeGen c true raw; return .ok (none, cis)
  | "publish" =>
    match raw with
    | [ch, msg] => let n ← publish ch msg; okR (.int n) cis
    | _ => return .error "model: bad args"
  | "blpop" | "brpop" =>
    match raw.getLast? with
    | none => return .error "model: bad args"
    | some tb =>
      match Conv.timeout tb with
      | .error e => return .error e
      | .ok timeout =>
        let keys := raw.dropLast
        match ← (if mode.async then blockingAsync c name keys (fun first => bpopPass d (name == "blpop") first keys)
                 else blocking c mode.park name keys timeout (fun first => bpopPass d (name == "blpop") first keys)) with
        | .error e => return .error e
        | .ok r => return .ok (r, cis)
  | "brpoplpush" =>
    match args with
    | [.raw src, .raw dst, .int timeout] =>
      match ← (if mode.async then blockingAsync c name [src, dst] (fun first => brpoplpushPass d src dst first)
               else blocking c mode.park name [src, dst] timeout (fun first => brpoplpushPass d src dst first)) with
      | .error e => return .error e
      | .ok r => return .ok (r, cis)
    | _ => return .error "model: bad args"
  | "zunionstore" | "zinterstore" =>
    match ← zunioninter (name == "zunionstore") d args cis with
    | .ok (r, cis') => return .ok (some r, cis')
    | .error e => return .error e
  | "eval" | "evalsha" | "script" => scriptCmd inner c name args cis
  | _ => fault ("model: command not modelled: " ++ name); return .error ("model: command not modelled: " ++ name)

/-- ASCII lower-casing of the command name; `none` when the name cannot denote a command -/
def commandName (b : Bytes) : Option String :=
  if b.all (fun c => c < 128) then some (bytesStr (b.map lowerByte)) else none

def unknownCommandPrefix : String := "ERR unknown command '"

/-! ## Scripts (EVAL / EVALSHA / SCRIPT)

The Lua host is external.  The harness records, as hints, what the host did: the SHA-1 of the source, every
`redis.call` / `redis.pcall` invocation with its Lua arguments and the value the bridge returned to Lua, and the
script's final Lua value (or Lua error).  The model re-executes every invocation with the very runner used for
direct commands (`from_script = True`), converts arguments and results by the code's tables, checks that it
computes the same value the host was given, and converts the final value to a reply. -/

inductive LuaVal where
  | nil | bool (b : Bool) | int (n : Int) | flt (d : Dbl) | str (b : Bytes) | pystr (b : Bytes)
  | table (arr : List LuaVal) (hash : List (Bytes × LuaVal))
  deriving Repr, Inhabited

namespace LuaVal

mutual
def ser : LuaVal → Bytes
  | .nil => [78] | .bool true => [84] | .bool false => [70]
  | .int n => 73 :: intBytes n ++ [59]
  | .flt d => 68 :: natDigits d.toBits.toNat ++ [59]
  | .str b => 83 :: strBytes (toHex b) ++ [59]
  | .pystr b => 85 :: strBytes (toHex b) ++ [59]
  | .table arr hash => 123 :: serList arr ++ 124 :: serHash hash ++ [125]
def serList : List LuaVal → Bytes
  | [] => []
  | [x] => ser x
  | x :: xs => ser x ++ 44 :: serList xs
def serHash : List (Bytes × LuaVal) → Bytes
  | [] => []
  | [(k, v)] => strBytes (toHex k) ++ 61 :: ser v
  | (k, v) :: rest => strBytes (toHex k) ++ 61 :: ser v ++ 44 :: serHash rest
end

def takeUntil (c : UInt8) : Bytes → Bytes × Bytes
  | [] => ([], [])
  | x :: xs => if x == c then ([], xs) else let (a, b) := takeUntil c xs; (x :: a, b)

/-- recursive-descent parser of `ser` with fuel -/
def parse : Nat → Bytes → Option (LuaVal × Bytes)
  | 0, _ => none
  | fuel + 1, b =>
    match b with
    | 78 :: r => some (.nil, r)
    | 84 :: r => some (.bool true, r)
    | 70 :: r => some (.bool false, r)
    | 73 :: r => let (d, r') := takeUntil 59 r; (parseCanonInt d).map fun n => (.int n, r')
    | 68 :: r => let (d, r') := takeUntil 59 r
      if d.all isDigit && !d.isEmpty then some (.flt (Dbl.ofBits (UInt64.ofNat (digitsVal d))), r') else none
    | 83 :: r => let (d, r') := takeUntil 59 r; (fromHex (bytesStr d)).map fun x => (.str x, r')
    | 85 :: r => let (d, r') := takeUntil 59 r; (fromHex (bytesStr d)).map fun x => (.pystr x, r')
    | 123 :: r =>
      let rec arrLoop (f : Nat) (b : Bytes) (acc : List LuaVal) : Option (List LuaVal × Bytes) :=
        match f with
        | 0 => none
        | f' + 1 =>
          match b with
          | 124 :: r => some (acc.reverse, r)
          | 44 :: r => arrLoop f' r acc
          | _ => match parse fuel b with
            | some (v, r) => arrLoop f' r (v :: acc)
            | none => none
      let rec hashLoop (f : Nat) (b : Bytes) (acc : List (Bytes × LuaVal)) : Option (List (Bytes × LuaVal) × Bytes) :=
        match f with
        | 0 => none
        | f' + 1 =>
          match b with
          | 125 :: r => some (acc.reverse, r)
          | 44 :: r => hashLoop f' r acc
          | _ =>
            let (k, r) := takeUntil 61 b
            match fromHex (bytesStr k), parse fuel r with
            | some k', some (v, r') => hashLoop f' r' ((k', v) :: acc)
            | _, _ => none
      match arrLoop (b.length + 1) r [] with
      | some (arr, r1) => (hashLoop (b.length + 1) r1 []).map fun (h, r2) => (.table arr h, r2)
      | none => none
    | _ => none

def ofBytes (b : Bytes) : Option LuaVal :=
  match parse (b.length + 1) b with
  | some (v, []) => some v
  | _ => none

end LuaVal

/-- `_convert_redis_arg` -/
def luaToArg (version : Nat) : LuaVal → Except Err Bytes
  | .str b => .ok b
  | .int n => .ok (strBytes (Dbl.fmtG17 (Dbl.ofInt n)))
  | .flt d => .ok (strBytes (Dbl.fmtG17 d))
  | _ => .error (if version < 7 then Msgs.LUA_COMMAND_ARG_MSG6 else Msgs.LUA_COMMAND_ARG_MSG)

mutual
/-- `_convert_redis_result` -/
def replyToLua : Reply → Except Err LuaVal
  | .bulk b => .ok (.str b)
  | .int n => .ok (.int n)
  | .status s => .ok (.table [] [(strBytes "ok", .str s)])
  | .nil => .ok (.bool false)
  | .err e => .error (bytesStr e)
  | .arr xs => (repliesToLua xs).map fun l => .table l []
def repliesToLua : List Reply → Except Err (List LuaVal)
  | [] => .ok []
  | x :: xs =>
    match replyToLua x with
    | .error e => .error e
    | .ok v => (repliesToLua xs).map (v :: ·)
end

/-- `_convert_lua_result` (fuel bounds the nesting depth of the Lua value) -/
def luaToReplyF : Nat → Bool → LuaVal → Except Err Reply
  | 0, _, _ => .error "model: lua value nested too deeply"
  | fuel + 1, nested, v =>
    match v with
    | .table arr hash =>
      match hash.lookup (strBytes "ok") with
      | some v =>
        match luaToReplyF fuel true v with
        | .ok (.bulk m) => .ok (.status m)
        | .ok _ => .error Msgs.LUA_WRONG_NUMBER_ARGS_MSG
        | .error e => .error e
      | none =>
        match hash.lookup (strBytes "err") with
        | some v =>
          match luaToReplyF fuel true v with
          | .ok (.bulk m) => if nested then .ok (.err m) else .error (bytesStr m)
          | .ok _ => .error Msgs.LUA_WRONG_NUMBER_ARGS_MSG
          | .error e => .error e
        | none => (arr.mapM (luaToReplyF fuel true)).map .arr
    | .pystr b => .ok (.bulk b)
    | .str b => .ok (.bulk b)
    | .flt d => .ok (.int d.truncToInt)
    | .bool true => .ok (.int 1)
    | .bool false => .ok .nil
    | .int n => .ok (.int n)
    | .nil => .ok .nil

def luaToReply (nested : Bool) (v : LuaVal) : Except Err Reply := luaToReplyF 200 nested v

def nextPick : M (Option (List Bytes)) := do
  let s ← get
  match s.picks with
  | p :: rest => set { s with picks := rest }; return some p
  | [] => return none

def scriptErrorMsg (sha : Bytes) (msg : String) : String :=
  "ERR Error running script (call to f_" ++ bytesStr sha ++ "): @user_script:?: " ++ msg

/-- the nested `_run_command(func, sig, args, True)` of a script call -/
def runFromScript (special : Mode → Nat → String → List Arg → List CI → M (Except Err (Option Reply × List CI)))
    (mode : Mode) (c : Nat) (op : LuaVal) (args : List LuaVal) : M (Except Err LuaVal) := do
  let version := (← get).srv.version
  match op with
  | .str nameB =>
    let sig? : Option Sig := match commandName nameB with
      | some n => if n.startsWith "_" then none else SigTable.find n
      | none => none
    match sig? with
    | none => return .error unknownCommandPrefix
    | some sig =>
      match args.mapM (luaToArg version) with
      | .error e => return .error e
      | .ok raw =>
        match ← runWith special mode c sig raw true with
        | none => return .error "model: NoResponse from a script call"
        | some r => return replyToLua r
  | _ => return .error "model: script call with a non-string command name"

/-- interpret the recorded trace of one script run; returns the reply or the error of EVAL -/
def runTrace (special : Mode → Nat → String → List Arg → List CI → M (Except Err (Option Reply × List CI)))
    (mode : Mode) (c : Nat) (sha : Bytes) : Nat → M (Except Err Reply)
  | 0 => do fault "script trace too long"; return .error "model: script trace"
  | fuel + 1 => do
    let version := (← get).srv.version
    match ← nextPick with
    | none => fault "script trace ended without a result"; return .error "model: script trace"
    | some p =>
      match p with
      | tag :: rest =>
        if tag == strBytes "return" then
          match rest with
          | [v] =>
            match LuaVal.ofBytes v with
            | some lv => return luaToReply false lv
            | none => fault "bad lua value in hint"; return .error "model: script trace"
          | _ => fault "bad return hint"; return .error "model: script trace"
        else if tag == strBytes "luaerror" then
          return .error (scriptErrorMsg sha (bytesStr (rest.headD [])))
        else if tag == strBytes "globals" then
          return .error (bytesStr (rest.headD []))
        else if tag == strBytes "call" || tag == strBytes "pcall" then
          match rest with
          | globalsMsg :: opB :: argBs =>
            match LuaVal.ofBytes opB, argBs.mapM LuaVal.ofBytes with
            | some op, some args =>
              -- `_check_for_lua_globals` runs first; its verdict is the host's business and comes with the hint
              let res ← if globalsMsg.isEmpty then runFromScript special mode c op args
                        else pure (.error (bytesStr globalsMsg))
              -- what the host saw
              match ← nextPick with
              | some [t, v] =>
                if t == strBytes "ret" then
                  match res with
                  | .ok lv =>
                    if lv.ser != v then fault "script call returned a different value to Lua"
                    runTrace special mode c sha fuel
                  | .error _ => fault "script call should have raised"; return .error "model: script trace"
                else if t == strBytes "exc" then
                  match res with
                  | .error e =>
                    -- the echoed name of an unknown command is compared by prefix only (it went through a lossy decode)
                    let e' := e
                    let sameErr : Bool :=
                      if e == unknownCommandPrefix then v.take (strBytes unknownCommandPrefix).length == strBytes unknownCommandPrefix
                      else strBytes e' == v
                    if !sameErr then fault "script call raised a different error"
                    if tag == strBytes "pcall" then runTrace special mode c sha fuel
                    else return .error (if version == 6 then scriptErrorMsg sha e' else e')
                  | .ok _ => fault "script call should have returned"; return .error "model: script trace"
                else fault "bad outcome hint"; return .error "model: script trace"
              | _ => fault "missing outcome hint"; return .error "model: script trace"
            | _, _ => fault "bad lua value in call hint"; return .error "model: script trace"
          | _ => fault "bad call hint"; return .error "model: script trace"
        else fault "unknown script hint"; return .error "model: script trace"
      | [] => fault "empty script hint"; return .error "model: script trace"

def shaHint : M (Option Bytes) := do
  match ← nextPick with
  | some [t, h] => if t == strBytes "sha" then return some h else return none
  | _ => return none

def evalBody (special : Mode → Nat → String → List Arg → List CI → M (Except Err (Option Reply × List CI)))
    (mode : Mode) (c : Nat) (script : Bytes) (numkeys : Int) (rest : List Bytes) : M (Except Err Reply) := do
  match ← shaHint with
  | none => fault "eval: sha hint missing"; return .error "model: bad hint"
  | some sha =>
    if numkeys > rest.length then return .error Msgs.TOO_MANY_KEYS_MSG
    if numkeys < 0 then return .error Msgs.NEGATIVE_KEYS_MSG
    modify fun s => { s with srv := { s.srv with scripts := ZSet.dictSet s.srv.scripts sha script } }
    runTrace special mode c sha 100000

/-- the three script commands -/
def scriptBody (special : Mode → Nat → String → List Arg → List CI → M (Except Err (Option Reply × List CI)))
    (mode : Mode) (c : Nat) (name : String) (args : List Arg) : M (Except Err Reply) := do
  let version := (← get).srv.version
  match name, args with
  | "eval", .raw script :: .int numkeys :: rest => evalBody special mode c script numkeys (Cmd.rawArgs rest)
  | "evalsha", .raw sha :: .int numkeys :: rest =>
    match (← get).srv.scripts.lookup sha with
    | none => return .error Msgs.NO_MATCHING_SCRIPT_MSG
    | some script => evalBody special mode c script numkeys (Cmd.rawArgs rest)
  | "script", .raw sub :: rest =>
    let raw := Cmd.rawArgs rest
    if casematch sub "load" then
      match raw with
      | [script] =>
        match ← shaHint with
        | none => fault "script load: sha hint missing"; return .error "model: bad hint"
        | some sha =>
          modify fun s => { s with srv := { s.srv with scripts := ZSet.dictSet s.srv.scripts sha script } }
          return .ok (.bulk sha)
      | _ => return .error (Msgs.fmt1 Msgs.BAD_SUBCOMMAND_MSG "SCRIPT")
    else if casematch sub "exists" then
      if version ≥ 7 && raw.isEmpty then return .error (Msgs.fmt1 Msgs.WRONG_ARGS_MSG "script|exists")
      let cache := (← get).srv.scripts
      return .ok (.arr (raw.map fun h => .int (if (cache.lookup h).isSome then 1 else 0)))
    else if casematch sub "flush" then
      if raw.length > 1 || (raw.length == 1 && casenorm (raw.headD []) != strBytes "sync" && casenorm (raw.headD []) != strBytes "async") then
        return .error (Msgs.fmt1 Msgs.BAD_SUBCOMMAND_MSG "SCRIPT")
      modify fun s => { s with srv := { s.srv with scripts := [] } }
      return .ok .ok
    else return .error (Msgs.fmt1 Msgs.BAD_SUBCOMMAND_MSG "SCRIPT")
  | _, _ => return .error "model: bad args"

def scriptNames : List String := ["eval", "evalsha", "script"]

/-- `_run_command` of a script command issued directly by the client -/
def runScriptCmd (mode : Mode) (c : Nat) (sig : Sig) (raw : List Bytes) (fromScript : Bool) : M (Option Reply) := do
  let conn ← getConn c
  -- a subscribed connection is refused before the arguments are looked at
  if conn.pubsub > 0 && !SigTable.pubsubAllowed.contains sig.name then
    return some (.err (strBytes Msgs.BAD_COMMAND_IN_PUBSUB_MSG))
  let db ← getDb conn.db
  let (db', res) := sig.apply raw db
  setDb conn.db db'
  match res with
  | .error e => return some (.err (strBytes e))
  | .ok (.short r) => return some r
  | .ok (.ok args _) =>
    match runGate sig fromScript (conn.pubsub > 0) with
    | some e => return some (.err (strBytes e))
    | none =>
      match ← scriptBody (special (fun _ _ => do fault "nested exec"; return none)) mode c sig.name args with
      | .ok r => return some r
      | .error e =>
        if e.startsWith "model:" then fault e
        return some (.err (strBytes e))

/-- level 0: the commands run by EXEC (`self._run_command(func, sig, args, False)` with `_in_transaction` set).
A queued script command is run exactly like a direct one; an EXEC cannot be queued, so the innermost level has none -/
def runInner (mode : Mode) (c : Nat) (sig : Sig) (raw : List Bytes) : M (Option Reply) :=
  if scriptNames.contains sig.name then runScriptCmd mode c sig raw false
  else runWith (special (fun _ _ => do fault "nested exec"; return none)) mode c sig raw false

/-- `_run_command` for a command issued by the client -/
def runCommand (mode : Mode) (c : Nat) (sig : Sig) (raw : List Bytes) (fromScript : Bool) : M (Option Reply) :=
  if scriptNames.contains sig.name then runScriptCmd mode c sig raw fromScript
  else runWith (special (runInner mode c)) mode c sig raw fromScript

/-- `_cleanup` of every socket on `closed_sockets` -/
def cleanupClosed : M Unit := do
  let s ← get
  for c in s.srv.closedSockets do
    modify fun s => { s with srv := { s.srv with
      subs := s.srv.subs.map (fun p => (p.1, p.2.filter (· != c))),
      psubs := s.srv.psubs.map (fun p => (p.1, p.2.filter (· != c))) } }
    clearWatches c
  modify fun s => { s with srv := { s.srv with closedSockets := [] } }

/-- `_process_command` -/
def processCommand (mode : Mode) (c : Nat) (fields : List Bytes) : M Unit := do
  match fields with
  | [] => return
  | nameB :: args =>
    let conn ← getConn c
    let sig? : Option Sig := match commandName nameB with
      | some n => if n.startsWith "_" then none else SigTable.find n
      | none => none
    match sig? with
    | none =>
      -- unknown command: raised before the lock is taken (no clean-up, no clock refresh)
      if conn.tx.isSome then modifyConn c fun x => { x with txFailed := true }
      emit c (.err (strBytes unknownCommandPrefix))
    | some sig =>
      cleanupClosed
      let now ← nextClock
      modify fun s => { s with srv := { s.srv with time := now } }
      if !sig.checkArity args.length then
        if conn.tx.isSome then modifyConn c fun x => { x with txFailed := true }
        if sig.name == "exec" then
          modifyConn c fun x => { x with tx := none, txFailed := false }
          clearWatches c
          emit c (.err (strBytes ("EXECABORT Transaction discarded because of: " ++ (sig.wrongArgs.drop 4))))
        else emit c (.err (strBytes sig.wrongArgs))
      else if conn.tx.isSome && !SigTable.notQueued.contains sig.name then
        if SigTable.notInMulti.contains sig.name then
          -- (P)SUBSCRIBE / (P)UNSUBSCRIBE are refused at queue time; the transaction is poisoned
          modifyConn c fun x => { x with txFailed := true }
          emit c (.err (strBytes Msgs.COMMAND_IN_MULTI_MSG))
        else
          modifyConn c fun x => { x with tx := x.tx.map (· ++ [(sig.name, args)]) }
          emit c .queued
      else
        match ← runCommand mode c sig args false with
        | some r => emit c r
        | none => pure ()
        if (← get).crashed.isSome then modifyConn c fun x => { x with dead := true }

/-! ## request parser -/

def splitLine : Bytes → Option (Bytes × Bytes)
  | [] => none
  | c :: rest =>
    if c == 10 then some ([c], rest)
    else match splitLine rest with
      | some (l, r) => some (c :: l, r)
      | none => none

/-- the number between the type byte and the trailing CR LF of a header line -/
def headerNum (ty : UInt8) (line : Bytes) : Option Int :=
  match line with
  | t :: rest =>
    if t != ty then none
    else
      let body := rest.take (rest.length - 2)
      if rest.drop (rest.length - 2) != [13, 10] then none else parseCanonInt body
  | [] => none

def parseFields : Nat → Bytes → Option (List Bytes × Bytes)
  | 0, buf => some ([], buf)
  | n + 1, buf =>
    match splitLine buf with
    | none => none
    | some (line, rest) =>
      match headerNum 36 line with
      | none => none
      | some len =>
        let len := len.toNat
        if rest.length < len + 2 then none
        else match parseFields n (rest.drop (len + 2)) with
          | some (fs, r) => some (rest.take len :: fs, r)
          | none => none

/-- one complete request at the head of the buffer, if any -/
def tryParse (buf : Bytes) : Option (List Bytes × Bytes) :=
  match splitLine buf with
  | none => none
  | some (line, rest) =>
    match headerNum 42 line with
    | none => none
    | some n => parseFields n.toNat rest

/-- drain complete requests from the connection's buffer -/
def drain (mode : Mode) (c : Nat) : Nat → M Unit
  | 0 => return
  | fuel + 1 => do
    let conn ← getConn c
    if conn.paused || conn.dead then return
    match tryParse conn.buf with
    | none => return
    | some (fields, rest) =>
      modifyConn c fun x => { x with buf := rest }
      processCommand mode c fields
      drain mode c fuel

/-- `sendall(data)` -/
def sendall (mode : Mode) (c : Nat) (data : Bytes) : M Unit := do
  let conn ← getConn c
  if conn.dead then
    modify fun s => { s with crashed := some "StopIteration" }
    return
  modifyConn c fun x => { x with buf := x.buf ++ data }
  drain mode c (conn.buf.length + data.length + 1)

/-- `FakeSocket.sendall` including the outage check: while the server is marked disconnected every write raises the
client library's `ConnectionError` and nothing else happens -/
def sendallGuarded (mode : Mode) (c : Nat) (data : Bytes) : M Unit := do
  if !(← get).srv.connected then
    modify fun s => { s with crashed := some "ConnectionError" }
  else sendall mode c data

/-- RESP encoding of a request (what redis-py's `pack_command` produces) -/
def encodeRequest (fields : List Bytes) : Bytes :=
  42 :: natDigits fields.length ++ [13, 10] ++
    fields.flatMap fun f => 36 :: natDigits f.length ++ [13, 10] ++ f ++ [13, 10]

/-! ## blocked connections (scheduler semantics, C11)

A connection parked in `_blocking` sits in `condition.wait`.  `wakeConn` is one turn of the loop after
the wait returned `True` (notified, or spuriously): re-run the pass with `first_pass = False`; if it is
not served, read the clock and either give up (deadline reached) or wait again.  `timeoutConn` is the
wait returning `False`. -/

def parkedPass (c : Nat) (p : Parked) : M (Except Err (Option Reply)) :=
  match p.kind, p.keys with
  | "brpoplpush", [src, dst] => brpoplpushPass p.db src dst false
  | "blpop", keys => bpopPass p.db true false keys
  | _, keys => bpopPass p.db false false keys

def wakeConn (c : Nat) : M Unit := do
  let conn ← getConn c
  match conn.parked with
  | none => fault "wake: connection is not parked"
  | some p =>
    match ← parkedPass c p with
    | .error e =>
      modifyConn c fun x => { x with parked := none }
      emit c (.err (strBytes e))
    | .ok (some r) =>
      modifyConn c fun x => { x with parked := none }
      emit c r
    | .ok none =>
      match p.deadline with
      | none => modifyConn c fun x => { x with parked := some { p with woken := false } }
      | some d =>
        let t ← nextClock
        if d - t ≤ 0 then
          modifyConn c fun x => { x with parked := none }
          emit c .nil
        else modifyConn c fun x => { x with parked := some { p with woken := false } }

def timeoutConn (c : Nat) : M Unit := do
  let conn ← getConn c
  match conn.parked with
  | none => fault "timeout: connection is not parked"
  | some _ =>
    modifyConn c fun x => { x with parked := none }
    emit c .nil

/-- asyncio: the re-try task of a parked connection ran (`event.wait()` returned).  Served: the reply is queued,
the parser resumes and processes what was pipelined behind the blocking pop.  An error raised by the pass is the reply. -/
def wakeConnAsync (mode : Mode) (c : Nat) : M Unit := do
  let conn ← getConn c
  match conn.parked with
  | none => fault "wake: connection is not parked"
  | some p =>
    match ← parkedPass c p with
    | .error e =>
      modifyConn c fun x => { x with parked := none, paused := false }
      emit c (.err (strBytes e))
      drain mode c ((← getConn c).buf.length + 1)
    | .ok (some r) =>
      modifyConn c fun x => { x with parked := none, paused := false }
      emit c r
      drain mode c ((← getConn c).buf.length + 1)
    | .ok none => modifyConn c fun x => { x with parked := some { p with woken := false } }

/-- asyncio: `async_timeout` fired -/
def timeoutConnAsync (mode : Mode) (c : Nat) : M Unit := do
  let conn ← getConn c
  match conn.parked with
  | none => fault "timeout: connection is not parked"
  | some _ =>
    modifyConn c fun x => { x with parked := none, paused := false }
    emit c .nil
    drain mode c ((← getConn c).buf.length + 1)

/-- garbage collection of a connection object: the weak sets drop it at once -/
def gcConn (c : Nat) : M Unit :=
  modify fun s => { s with srv := { s.srv with
    subs := s.srv.subs.map (fun p => (p.1, p.2.filter (· != c))),
    psubs := s.srv.psubs.map (fun p => (p.1, p.2.filter (· != c))),
    closedSockets := s.srv.closedSockets.filter (· != c),
    conns := s.srv.conns.filter (·.id != c) } }

def openConn (c : Nat) : M Unit :=
  modify fun s => { s with srv := { s.srv with conns := s.srv.conns ++ [{ id := c }] } }

/-- `FakeSocket.close()` -/
def closeConn (c : Nat) : M Unit := do
  modify fun s => { s with srv := { s.srv with closedSockets := s.srv.closedSockets ++ [c] } }
  modifyConn c fun x => { x with closed := true }

end FR
