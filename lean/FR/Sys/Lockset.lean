/-!
# Lockset model of the fakeredis server lock (property C12)

A recorded trace of one server: client calls / returns, acquisitions and releases of the single
`server.lock` (a `Condition.wait` is recorded as `rel` followed, later, by `acq`), and the accesses to
shared objects.  `wellLocked` is the lockset discipline; `sections` are the critical sections in
acquisition order; `serialTrace` is the serial schedule of the critical sections.

Core Lean only (links into the native driver).  Everything is structurally recursive over the trace
with an explicit state.
-/
namespace FR.Lockset

abbrev Tid := Nat      -- thread id
abbrev Cid := Nat      -- command (call) id

inductive Ev where
  | call (t : Tid) (c : Cid)      -- thread t starts command c (client-side call)
  | ret  (t : Tid) (c : Cid)      -- command c returns to the caller
  | acq  (t : Tid)                -- t acquires the server lock (also: re-acquisition after Condition.wait)
  | rel  (t : Tid)                -- t releases it (also: release inside Condition.wait)
  | acc  (t : Tid) (obj : Nat) (write : Bool)   -- t reads/writes shared object obj
  deriving Repr, DecidableEq

abbrev Trace := List Ev

/-! ## scan state -/

/-- Current command per thread: association list `thread ↦ (command, has it had a critical section)`.
At most one entry per thread (maintained by `cset` / `cdel`). -/
abbrev Cur := List (Tid × Cid × Bool)

def cget (cur : Cur) (t : Tid) : Option (Cid × Bool) := cur.lookup t
def cdel (cur : Cur) (t : Tid) : Cur := cur.filter (fun p => p.1 != t)
def cset (cur : Cur) (t : Tid) (v : Cid × Bool) : Cur := (t, v) :: cdel cur t

structure St where
  /-- the thread holding the lock -/
  holder : Option Tid
  /-- current command per thread -/
  cur : Cur
  /-- all command ids called so far -/
  seen : List Cid

def St.init : St := ⟨none, [], []⟩

/-- the command thread `t` is currently inside -/
def cmdOf (st : St) (t : Tid) : Option Cid := (cget st.cur t).map (·.1)

/-- Why event `e` violates the discipline in state `st` (`none`: it does not). -/
def bad (st : St) : Ev → Option String
  | .call t c =>
    if (cget st.cur t).isSome then some "call-nested"
    else if st.seen.contains c then some "call-reused-id" else none
  | .ret t c =>
    if st.holder = some t then some "ret-while-holding"
    else if cmdOf st t = some c then none else some "ret-wrong-command"
  | .acq t =>
    if st.holder.isSome then some "acq-while-held"
    else if (cget st.cur t).isNone then some "acq-outside-command" else none
  | .rel t => if st.holder = some t then none else some "rel-by-non-holder"
  | .acc t _ _ => if st.holder = some t then none else some "acc-without-lock"

/-- event `e` respects the discipline in state `st` -/
def ok (st : St) (e : Ev) : Bool := (bad st e).isNone

/-- state after event `e` (total; meaningful when `ok st e`) -/
def next (st : St) : Ev → St
  | .call t c => { st with cur := cset st.cur t (c, false), seen := c :: st.seen }
  | .ret t _ => { st with cur := cdel st.cur t }
  | .acq t =>
    { st with
      holder := some t
      cur := match cget st.cur t with
        | some (c, _) => cset st.cur t (c, true)
        | none => st.cur }
  | .rel _ => { st with holder := none }
  | .acc _ _ _ => st

/-- the lockset discipline from state `st`; at the end the lock is free -/
def wlFrom (st : St) : Trace → Bool
  | [] => st.holder.isNone
  | e :: rest => ok st e && wlFrom (next st e) rest

/-- `acq t` needs the lock free and `t` inside a command; `rel t` and `acc t _ _` need `t` to hold the
lock; `ret t c` needs `t` not holding the lock and `c` its current command; `call t c` needs `t`
outside any command and `c` fresh; at the end the lock is free. -/
def wellLocked (tr : Trace) : Bool := wlFrom St.init tr

/-- first offending event (index, reason), `none` iff `wlFrom` -/
def firstBad (st : St) (i : Nat) : Trace → Option (Nat × String)
  | [] => if st.holder.isSome then some (i, "lock-held-at-end") else none
  | e :: rest =>
    match bad st e with
    | some r => some (i, r)
    | none => firstBad (next st e) (i + 1) rest

/-! ## accesses and critical sections -/

/-- the `acc` events in trace order -/
def accesses : Trace → List Ev
  | [] => []
  | .acc t o w :: rest => .acc t o w :: accesses rest
  | _ :: rest => accesses rest

/-- the `acc` events up to (excluding) the first `rel`: the body of the section that is open -/
def accsUntilRel : Trace → List Ev
  | [] => []
  | .rel _ :: _ => []
  | .acc t o w :: rest => .acc t o w :: accsUntilRel rest
  | _ :: rest => accsUntilRel rest

/-- a critical section: thread, the command it belongs to, its access events -/
abbrev Sec := Tid × Cid × List Ev

def sectionsFrom (st : St) : Trace → List Sec
  | [] => []
  | .acq t :: rest =>
    (t, (cmdOf st t).getD 0, accsUntilRel rest) :: sectionsFrom (next st (.acq t)) rest
  | e :: rest => sectionsFrom (next st e) rest

/-- the critical sections in acquisition order (a section extends from an `acq` to the next `rel`;
the command is the acquiring thread's current command, `0` if — ill-formed — there is none) -/
def sections (tr : Trace) : List Sec := sectionsFrom St.init tr

/-! ## the serial schedule -/

inductive Nxt where
  | acq | ret | none
  deriving DecidableEq, Repr

/-- what thread `t` does next among: acquire the lock, return from its command, neither -/
def nextOf (t : Tid) : Trace → Nxt
  | [] => .none
  | .acq t' :: rest => if t' = t then .acq else nextOf t rest
  | .ret t' _ :: rest => if t' = t then .ret else nextOf t rest
  | _ :: rest => nextOf t rest

def serialFrom (st : St) : Trace → Trace
  | [] => []
  | .call t c :: rest =>
    (match nextOf t rest with
      | .acq => []                          -- emitted in front of its first section
      | .ret => [.call t c, .ret t c]       -- a command without critical section
      | .none => [.call t c])               -- … that moreover never returns
      ++ serialFrom (next st (.call t c)) rest
  | .acq t :: rest =>
    (match cget st.cur t with
      | some (c, started) =>
        (if started then [] else [.call t c]) ++ .acq t :: accsUntilRel rest ++ [.rel t]
          ++ (if nextOf t rest = .ret then [.ret t c] else [])
      | none => .acq t :: accsUntilRel rest ++ [.rel t])
      ++ serialFrom (next st (.acq t)) rest
  | e :: rest => serialFrom (next st e) rest

/-- The serial schedule: the critical sections in acquisition order, each as
`acq t :: accs ++ [rel t]`; the `call` of a command immediately before its first section, its `ret`
(if it returns in `tr`) immediately after its last section.  A command without any critical section
is emitted as `call, ret` (just `call` if it never returns) at the position of its `call`. -/
def serialTrace (tr : Trace) : Trace := serialFrom St.init tr

/-- Shape of a serial schedule: every critical section is contiguous — between an `acq` and the next
`rel` there are only `acc` events (no `call` / `ret` / `acq` of anybody), outside a section there is no
`acc` and no `rel`, and the trace does not end inside a section. -/
def isSerialFrom : Bool → Trace → Bool
  | inSec, [] => !inSec
  | false, .call _ _ :: rest => isSerialFrom false rest
  | false, .ret _ _ :: rest => isSerialFrom false rest
  | false, .acq _ :: rest => isSerialFrom true rest
  | true, .acc _ _ _ :: rest => isSerialFrom true rest
  | true, .rel _ :: rest => isSerialFrom false rest
  | _, _ :: _ => false

def isSerial (tr : Trace) : Bool := isSerialFrom false tr

/-! ## real-time precedence, linearization order -/

def isRet (c : Cid) : Ev → Bool
  | .ret _ c' => c' == c
  | _ => false

def isCall (c : Cid) : Ev → Bool
  | .call _ c' => c' == c
  | _ => false

def hasCall (tr : Trace) (c : Cid) : Bool := tr.any (isCall c)

/-- real-time precedence: `c1` returns before `c2` is called -/
def precedes : Trace → Cid → Cid → Bool
  | [], _, _ => false
  | e :: rest, c1, c2 => (isRet c1 e && hasCall rest c2) || precedes rest c1 c2

/-- program order: thread `t` calls `c1` and later calls `c2` -/
def progBefore (tr : Trace) (t : Tid) (c1 c2 : Cid) : Prop :=
  ∃ pre post, tr = pre ++ .call t c1 :: post ∧ .call t c2 ∈ post

/-- keep the last occurrence of every element -/
def lastOccs : List Cid → List Cid
  | [] => []
  | c :: cs => if cs.contains c then lastOccs cs else c :: lastOccs cs

/-- Commands in the order of their linearization points.  Convention: the linearization point of a
command is its LAST critical section (a blocking pop that waited takes effect in the section after its
last wake-up).  Commands without critical section do not appear. -/
def cmdOrder (tr : Trace) : List Cid := lastOccs ((sections tr).map (·.2.1))

/-- number of critical sections of command `c` -/
def sectionsOf (tr : Trace) (c : Cid) : Nat := ((sections tr).map (·.2.1)).count c

/-! ## state-free view of the lock, for the mutual exclusion statement -/

/-- lock holder according to the `acq` / `rel` events alone -/
def holderFrom (h : Option Tid) : Trace → Option Tid
  | [] => h
  | .acq t :: rest => holderFrom (some t) rest
  | .rel _ :: rest => holderFrom none rest
  | _ :: rest => holderFrom h rest

/-- the holder after the first `i` events -/
def holderAt (tr : Trace) (i : Nat) : Option Tid := holderFrom none (tr.take i)

def acqCount (t : Tid) : Trace → Nat
  | [] => 0
  | .acq t' :: rest => (if t' = t then 1 else 0) + acqCount t rest
  | _ :: rest => acqCount t rest

def relCount (t : Tid) : Trace → Nat
  | [] => 0
  | .rel t' :: rest => (if t' = t then 1 else 0) + relCount t rest
  | _ :: rest => relCount t rest

/-- thread `t` has acquired the lock more often than released it within the first `i` events -/
def holdsAt (tr : Trace) (i : Nat) (t : Tid) : Prop :=
  relCount t (tr.take i) < acqCount t (tr.take i)

/-! ## text interface for the driver -/

def parseEv (s : String) : Option Ev :=
  match s.splitOn ":" with
  | ["call", t, c] => do some (.call (← t.toNat?) (← c.toNat?))
  | ["ret", t, c] => do some (.ret (← t.toNat?) (← c.toNat?))
  | ["acq", t] => do some (.acq (← t.toNat?))
  | ["rel", t] => do some (.rel (← t.toNat?))
  | ["acc", t, o, "w"] => do some (.acc (← t.toNat?) (← o.toNat?) true)
  | ["acc", t, o, "r"] => do some (.acc (← t.toNat?) (← o.toNat?) false)
  | _ => none

/-- parse the tokens; `Except.error i`: token `i` is malformed -/
def parseToks (i : Nat) : List String → Except Nat Trace
  | [] => .ok []
  | s :: rest =>
    match parseEv s with
    | none => .error i
    | some e =>
      match parseToks (i + 1) rest with
      | .ok es => .ok (e :: es)
      | .error j => .error j

def numCalls : Trace → Nat
  | [] => 0
  | .call _ _ :: rest => numCalls rest + 1
  | _ :: rest => numCalls rest

/-- `"ok <sections> <commands>"` or `"bad <index of first offending event> <reason>"`.
Reasons: `parse-error`, `call-nested`, `call-reused-id`, `ret-while-holding`, `ret-wrong-command`,
`acq-while-held`, `acq-outside-command`, `rel-by-non-holder`, `acc-without-lock`,
`lock-held-at-end` (index = length of the trace). -/
def checkTrace (tr : Trace) : String :=
  match firstBad St.init 0 tr with
  | some (i, r) => s!"bad {i} {r}"
  | none => s!"ok {(sections tr).length} {numCalls tr}"

/-- split at white space; `cur` is the current token, reversed -/
def tokens (cur : List Char) : List Char → List String
  | [] => if cur.isEmpty then [] else [String.ofList cur.reverse]
  | ch :: rest =>
    if ch == ' ' || ch == '\t' || ch == '\n' || ch == '\r' then
      if cur.isEmpty then tokens [] rest else String.ofList cur.reverse :: tokens [] rest
    else tokens (ch :: cur) rest

def checkTraceLine (line : String) : String :=
  match parseToks 0 (tokens [] line.toList) with
  | .error i => s!"bad {i} parse-error"
  | .ok tr => checkTrace tr

end FR.Lockset
