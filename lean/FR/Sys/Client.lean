import FR.Prelude.Reply
/-!
# Client-side reply decoding (`decode_responses`)

What `FakeConnection.read_response` (`fakeredis/_server.py`, and identically `fakeredis/_aioredis2.py`) hands to
redis-py, as a function of the object sitting in the socket's reply queue (`Reply`, i.e. after `_decode_result`):

```python
def _decode(self, response):
    if isinstance(response, list):   return [self._decode(item) for item in response]
    elif isinstance(response, bytes): return self.encoder.decode(response, )
    else:                             return response

def read_response(self, disable_decoding=False):
    response = self._sock.responses.get()
    if isinstance(response, redis.ResponseError): raise response
    if disable_decoding: return response
    else:                return self._decode(response)
```

with redis-py's `Encoder.decode(value, force=False)`: `value.decode(self.encoding, self.encoding_errors)` if
`self.decode_responses` (the call site passes no `force`), `value` otherwise.

Facts mirrored here:
* in the queue a status reply (`SimpleString`) already IS its `bytes` payload (`_decode_result` returns `result.value`),
  so `Reply.status` and `Reply.bulk` are treated alike by the client side;
* an error reply is an exception OBJECT built by `BaseParser.parse_error` (`parseError` below: the class depends on the
  first word of the message and, for `ERR`, on the rest); `read_response` raises it only at top level and only when it
  is an instance of `ResponseError` — `ConnectionError`, `AuthenticationError`, `BusyLoadingError` objects are *returned*;
  nested in an array (EXEC) every error object stays in place;
* `None` and `int` are returned untouched; lists are rebuilt element by element, left to right, so the first
  undecodable bulk in depth-first order is the one whose `UnicodeDecodeError` surfaces;
* the codecs are CPython's: `utf-8` (one error span per *maximal valid prefix* of an ill-formed sequence — Unicode
  "best practice", Table 3-7 of the standard — with the reasons `invalid start byte`, `invalid continuation byte`,
  `unexpected end of data`), `latin-1` (total) and `ascii` (`ordinal not in range(128)`, one span per byte); the error
  handlers `strict` (raise), `replace` (U+FFFD per span), `ignore` (drop the span).  All nine combinations are exact.

A well-formed UTF-8 character is recognised with core Lean's `ByteArray.utf8DecodeChar?` (the function under
`String.fromUTF8?` / `ByteArray.validateUTF8`); only the *error span* of an ill-formed position is computed here.
-/
namespace FR.Client
open FR

inductive Encoding where
  | utf8 | latin1 | ascii
  deriving Repr, DecidableEq, Inhabited

inductive Errors where
  | strict | replace | ignore
  deriving Repr, DecidableEq, Inhabited

/-- The three connection keyword arguments that reach `Encoder`. -/
structure Cfg where
  decodeResponses : Bool := false
  encoding : Encoding := .utf8
  errors : Errors := .strict
  deriving Repr, DecidableEq, Inhabited

/-! ## error objects (`BaseParser.parse_error`) -/

/-- the exception classes `parse_error` can produce -/
inductive ErrClass where
  | response | connection | authentication | authWrongArgs | moduleErr
  | execAbort | busyLoading | noScript | readOnly | noPermission
  deriving Repr, DecidableEq, Inhabited

def ErrClass.name : ErrClass → String
  | .response => "ResponseError"
  | .connection => "ConnectionError"
  | .authentication => "AuthenticationError"
  | .authWrongArgs => "AuthenticationWrongNumberOfArgsError"
  | .moduleErr => "ModuleError"
  | .execAbort => "ExecAbortError"
  | .busyLoading => "BusyLoadingError"
  | .noScript => "NoScriptError"
  | .readOnly => "ReadOnlyError"
  | .noPermission => "NoPermissionError"

/-- `isinstance(e, redis.ResponseError)`: `ConnectionError` and its subclasses `AuthenticationError`, `BusyLoadingError`
are not. -/
def ErrClass.isResponseError : ErrClass → Bool
  | .connection | .authentication | .busyLoading => false
  | _ => true

/-- `EXCEPTION_CLASSES["ERR"]` -/
def errTable : List (Bytes × ErrClass) :=
  [ (strBytes "max number of clients reached", .connection),
    (strBytes "Client sent AUTH, but no password is set", .authentication),
    (strBytes "invalid password", .authentication),
    (strBytes "wrong number of arguments for 'auth' command", .authWrongArgs),
    (strBytes "wrong number of arguments for 'AUTH' command", .authWrongArgs),
    (strBytes "Error loading the extension. Please check the server logs.", .moduleErr),
    (strBytes "Error unloading module: the module exports one or more module-side data types, can't unload", .moduleErr),
    (strBytes "Error unloading module: no such module with that name", .moduleErr),
    (strBytes "Error unloading module: operation not possible.", .moduleErr) ]

/-- the other keys of `EXCEPTION_CLASSES` -/
def codeTable : List (Bytes × ErrClass) :=
  [ (strBytes "EXECABORT", .execAbort), (strBytes "LOADING", .busyLoading), (strBytes "NOSCRIPT", .noScript),
    (strBytes "READONLY", .readOnly), (strBytes "NOAUTH", .authentication), (strBytes "NOPERM", .noPermission) ]

/-- `parse_error(response)`: `error_code = response.split(" ")[0]`; for a known code the message loses
`len(error_code) + 1` characters.  The message is the UTF-8 form of the Python `str`. -/
def parseError (m : Bytes) : ErrClass × Bytes :=
  let code := m.takeWhile (· != 32)
  let rest := m.drop (code.length + 1)
  if code == strBytes "ERR" then ((errTable.lookup rest).getD .response, rest)
  else match codeTable.lookup code with
    | some c => (c, rest)
    | none => (.response, m)

/-! ## what the caller receives -/

inductive Reason where
  | invalidStart | invalidContinuation | unexpectedEnd | ordinalNotInRange
  deriving Repr, DecidableEq, Inhabited

def Reason.text : Reason → String
  | .invalidStart => "invalid start byte"
  | .invalidContinuation => "invalid continuation byte"
  | .unexpectedEnd => "unexpected end of data"
  | .ordinalNotInRange => "ordinal not in range(128)"

/-- what `read_response` raises instead of returning -/
inductive DecodeErr where
  /-- `raise response`: the top-level reply is a `ResponseError` object -/
  | raised (cls : ErrClass) (msg : Bytes)
  /-- `UnicodeDecodeError(encoding, object, start, end, reason)` from `bytes.decode` -/
  | unicode (enc : Encoding) (obj : Bytes) (start stop : Nat) (reason : Reason)
  deriving Repr, DecidableEq, Inhabited

/-- the Python value handed to redis-py's response callbacks -/
inductive CVal where
  | nil
  | int (n : Int)
  | bytes (b : Bytes)
  | text (s : String)
  | err (cls : ErrClass) (msg : Bytes)
  | list (xs : List CVal)
  deriving Repr, Inhabited, BEq

mutual
/-- decidable equality (the `deriving` handler does not cover nested inductives) -/
def CVal.decEq : (a b : CVal) → Decidable (a = b)
  | .nil, .nil => isTrue rfl
  | .nil, .int _ => isFalse nofun
  | .nil, .bytes _ => isFalse nofun
  | .nil, .text _ => isFalse nofun
  | .nil, .err _ _ => isFalse nofun
  | .nil, .list _ => isFalse nofun
  | .int _, .nil => isFalse nofun
  | .int n₁, .int n₂ => if h : n₁ = n₂ then isTrue (h ▸ rfl) else isFalse fun e => h (CVal.int.inj e)
  | .int _, .bytes _ => isFalse nofun
  | .int _, .text _ => isFalse nofun
  | .int _, .err _ _ => isFalse nofun
  | .int _, .list _ => isFalse nofun
  | .bytes _, .nil => isFalse nofun
  | .bytes _, .int _ => isFalse nofun
  | .bytes b₁, .bytes b₂ => if h : b₁ = b₂ then isTrue (h ▸ rfl) else isFalse fun e => h (CVal.bytes.inj e)
  | .bytes _, .text _ => isFalse nofun
  | .bytes _, .err _ _ => isFalse nofun
  | .bytes _, .list _ => isFalse nofun
  | .text _, .nil => isFalse nofun
  | .text _, .int _ => isFalse nofun
  | .text _, .bytes _ => isFalse nofun
  | .text s₁, .text s₂ => if h : s₁ = s₂ then isTrue (h ▸ rfl) else isFalse fun e => h (CVal.text.inj e)
  | .text _, .err _ _ => isFalse nofun
  | .text _, .list _ => isFalse nofun
  | .err _ _, .nil => isFalse nofun
  | .err _ _, .int _ => isFalse nofun
  | .err _ _, .bytes _ => isFalse nofun
  | .err _ _, .text _ => isFalse nofun
  | .err c₁ m₁, .err c₂ m₂ =>
    if h : c₁ = c₂ ∧ m₁ = m₂ then isTrue (by rw [h.1, h.2]) else isFalse fun e => h (CVal.err.inj e)
  | .err _ _, .list _ => isFalse nofun
  | .list _, .nil => isFalse nofun
  | .list _, .int _ => isFalse nofun
  | .list _, .bytes _ => isFalse nofun
  | .list _, .text _ => isFalse nofun
  | .list _, .err _ _ => isFalse nofun
  | .list xs₁, .list xs₂ =>
    match CVal.decEqList xs₁ xs₂ with
    | isTrue h => isTrue (h ▸ rfl)
    | isFalse h => isFalse fun e => h (CVal.list.inj e)
def CVal.decEqList : (a b : List CVal) → Decidable (a = b)
  | [], [] => isTrue rfl
  | [], _ :: _ => isFalse nofun
  | _ :: _, [] => isFalse nofun
  | x :: xs, y :: ys =>
    match CVal.decEq x y, CVal.decEqList xs ys with
    | isTrue h₁, isTrue h₂ => isTrue (by rw [h₁, h₂])
    | isFalse h, _ => isFalse fun e => h (List.cons.inj e).1
    | _, isFalse h => isFalse fun e => h (List.cons.inj e).2
end

instance : DecidableEq CVal := CVal.decEq

instance {ε α} [DecidableEq ε] [DecidableEq α] : DecidableEq (Except ε α)
  | .ok a, .ok b => if h : a = b then isTrue (h ▸ rfl) else isFalse fun e => h (Except.ok.inj e)
  | .error a, .error b => if h : a = b then isTrue (h ▸ rfl) else isFalse fun e => h (Except.error.inj e)
  | .ok _, .error _ => isFalse nofun
  | .error _, .ok _ => isFalse nofun

/-! ## the codecs -/

/-- one step of a decoder: a character, or an undecodable span `[start, stop)` -/
inductive Tok where
  | ch (c : Char)
  | bad (start stop : Nat) (reason : Reason)
  deriving Repr, DecidableEq, Inhabited

def Tok.isBad : Tok → Bool
  | .bad .. => true
  | .ch _ => false

def Tok.char? : Tok → Option Char
  | .ch c => some c
  | .bad .. => none

/-- U+FFFD REPLACEMENT CHARACTER -/
def replacement : Char := Char.ofNat 0xFFFD

def Tok.orReplacement : Tok → Char
  | .ch c => c
  | .bad .. => replacement

/-- `10xxxxxx` -/
def isCont (b : UInt8) : Bool := 0x80 ≤ b && b < 0xC0

/-- number of continuation bytes a lead byte asks for; `0` for a byte that cannot start a multi-byte sequence
(`80..C1`, `F5..FF`) -/
def need (b0 : UInt8) : Nat :=
  if b0 < 0xC2 then 0 else if b0 < 0xE0 then 1 else if b0 < 0xF0 then 2 else if b0 < 0xF5 then 3 else 0

/-- the second byte is a continuation byte *and* does not make the sequence overlong (`E0 80..9F`, `F0 80..8F`), a
surrogate (`ED A0..BF`) or larger than U+10FFFF (`F4 90..BF`) -/
def validSecond (b0 b1 : UInt8) : Bool :=
  isCont b1 && !(b0 == 0xE0 && b1 < 0xA0) && !(b0 == 0xED && 0xA0 ≤ b1)
    && !(b0 == 0xF0 && b1 < 0x90) && !(b0 == 0xF4 && 0x90 ≤ b1)

/-- CPython's error span at a position where no well-formed character starts: the length of the maximal prefix that
could still be completed (at least 1) and the reason (`utf8_decode` in `Objects/stringlib/codecs.h`: `InvalidStart`,
`InvalidContinuation1..3`, or the end of the data reached). -/
def utf8Err : Bytes → Nat × Reason
  | [] => (1, .unexpectedEnd)
  | b0 :: t =>
    match need b0, t with
    | 0, _ => (1, .invalidStart)
    | _ + 1, [] => (1, .unexpectedEnd)
    | n + 1, b1 :: t1 =>
      if !validSecond b0 b1 then (1, .invalidContinuation) else
      match n, t1 with
      | 0, _ => (2, .invalidContinuation)
      | _ + 1, [] => (2, .unexpectedEnd)
      | n + 1, b2 :: t2 =>
        if !isCont b2 then (2, .invalidContinuation) else
        match n, t2 with
        | 0, _ => (3, .invalidContinuation)
        | _ + 1, [] => (3, .unexpectedEnd)
        | _ + 1, _ :: _ => (3, .invalidContinuation)

/-- the well-formed character at the head of `l`, if any (core Lean's decoder on the first four bytes) -/
def utf8Head (l : Bytes) : Option Char :=
  ByteArray.utf8DecodeChar? (l.take 4).toByteArray 0

/-- UTF-8 scanner; `fuel` bounds the number of steps (each consumes at least one byte), `pos` is the offset of `l` in
the object being decoded. -/
def utf8Scan : Nat → Nat → Bytes → List Tok
  | 0, _, _ => []
  | _ + 1, _, [] => []
  | fuel + 1, pos, b0 :: t =>
    match utf8Head (b0 :: t) with
    | some c => .ch c :: utf8Scan fuel (pos + c.utf8Size) (t.drop (c.utf8Size - 1))
    | none =>
      let n := (utf8Err (b0 :: t)).1
      .bad pos (pos + n) (utf8Err (b0 :: t)).2 :: utf8Scan fuel (pos + n) (t.drop (n - 1))

def asciiScan : Nat → Bytes → List Tok
  | _, [] => []
  | pos, b :: t =>
    (if b < 0x80 then .ch (Char.ofNat b.toNat) else .bad pos (pos + 1) .ordinalNotInRange) :: asciiScan (pos + 1) t

def latin1Scan (b : Bytes) : List Tok := b.map fun c => .ch (Char.ofNat c.toNat)

def scan : Encoding → Bytes → List Tok
  | .utf8, b => utf8Scan b.length 0 b
  | .latin1, b => latin1Scan b
  | .ascii, b => asciiScan 0 b

/-- `b.decode(encoding, errors)` -/
def decodeText (enc : Encoding) (errors : Errors) (b : Bytes) : Except DecodeErr String :=
  let toks := scan enc b
  match errors with
  | .strict =>
    match toks.find? Tok.isBad with
    | some (.bad s e r) => .error (.unicode enc b s e r)
    | _ => .ok (String.ofList (toks.filterMap Tok.char?))
  | .replace => .ok (String.ofList (toks.map Tok.orReplacement))
  | .ignore => .ok (String.ofList (toks.filterMap Tok.char?))

/-- `str.encode(encoding, 'strict')` — the inverse direction (what redis-py does to a `str` argument); `none` is
`UnicodeEncodeError` -/
def encodeText : Encoding → String → Option Bytes
  | .utf8, s => some (strBytes s)
  | .latin1, s => s.toList.mapM fun c => if c.toNat < 256 then some (UInt8.ofNat c.toNat) else none
  | .ascii, s => s.toList.mapM fun c => if c.toNat < 128 then some (UInt8.ofNat c.toNat) else none

/-! ## `_decode` and `read_response` -/

/-- `self.encoder.decode(response, )` on a `bytes` object -/
def decodeBytes (cfg : Cfg) (b : Bytes) : Except DecodeErr CVal :=
  if cfg.decodeResponses then (decodeText cfg.encoding cfg.errors b).map .text else .ok (.bytes b)

/-- the exception object standing for an error reply -/
def errObj (m : Bytes) : CVal := .err (parseError m).1 (parseError m).2

mutual
/-- `FakeConnection._decode` -/
def decodeVal (cfg : Cfg) : Reply → Except DecodeErr CVal
  | .nil => .ok .nil
  | .int n => .ok (.int n)
  | .bulk b => decodeBytes cfg b
  | .status b => decodeBytes cfg b
  | .err m => .ok (errObj m)
  | .arr xs => (decodeList cfg xs).map .list
/-- the list comprehension: left to right, the first exception wins -/
def decodeList (cfg : Cfg) : List Reply → Except DecodeErr (List CVal)
  | [] => .ok []
  | x :: xs =>
    match decodeVal cfg x with
    | .error e => .error e
    | .ok v =>
      match decodeList cfg xs with
      | .error e => .error e
      | .ok vs => .ok (v :: vs)
end

mutual
/-- the queue object itself (`disable_decoding=True`, or `decode_responses=False`) -/
def rawVal : Reply → CVal
  | .nil => .nil
  | .int n => .int n
  | .bulk b => .bytes b
  | .status b => .bytes b
  | .err m => errObj m
  | .arr xs => .list (rawList xs)
def rawList : List Reply → List CVal
  | [] => []
  | x :: xs => rawVal x :: rawList xs
end

/-- `FakeConnection.read_response(disable_decoding)` applied to the reply taken from the queue -/
def decodeReply (cfg : Cfg) (disable : Bool) (r : Reply) : Except DecodeErr CVal :=
  match r with
  | .err m =>
    if (parseError m).1.isResponseError then .error (.raised (parseError m).1 (parseError m).2)
    else .ok (errObj m)
  | r => if disable then .ok (rawVal r) else decodeVal cfg r

/-! ## canonical text for the line protocol -/

def Encoding.pyName : Encoding → String
  | .utf8 => "utf-8"
  | .latin1 => "latin-1"
  | .ascii => "ascii"

mutual
def CVal.render : CVal → String
  | .nil => "nil"
  | .int n => "i:" ++ toString n
  | .bytes b => "b:" ++ toHex b
  | .text s => "t:" ++ toHex (strBytes s)
  | .err c m => "e:" ++ c.name ++ ":" ++ toHex m
  | .list xs => "[" ++ CVal.renderList xs ++ "]"
def CVal.renderList : List CVal → String
  | [] => ""
  | [x] => x.render
  | x :: xs => x.render ++ "," ++ CVal.renderList xs
end

def DecodeErr.render : DecodeErr → String
  | .raised c m => "raise " ++ c.name ++ ":" ++ toHex m
  | .unicode enc obj s e r => s!"unicode {enc.pyName} {toHex obj} {s} {e} " ++ r.text.replace " " "_"

def renderResult : Except DecodeErr CVal → String
  | .ok v => "ok " ++ v.render
  | .error e => e.render

end FR.Client
