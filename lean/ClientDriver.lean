import FR.Sys.Client
/-!
# Line-protocol driver for the client-side decoding model (`FR/Sys/Client.lean`)

Run with `lake env lean --run ClientDriver.lean` (after `lake build Props`, or `lake build FR.Sys.Client`).
One test per input line, one output line per test:

    <decode>,<encoding>,<errors> <disable> <reply>

* `<decode>` `0|1` (`decode_responses`), `<encoding>` `utf8|latin1|ascii`, `<errors>` `strict|replace|ignore`;
* `<disable>` `0|1` (`disable_decoding` of `read_response`);
* `<reply>` in the syntax of `Reply.render`: `nil`, `i:<int>`, `b:<hex>`, `s:<hex>`, `e:<hex of the UTF-8 message>`,
  `[<reply>,<reply>,…]` (`[]` is the empty array).

Output (`FR.Client.renderResult`): `ok <value>` with `<value>` = `nil | i:<int> | b:<hex> | t:<hex of UTF-8 of the str> |
e:<ClassName>:<hex msg> | [..]`, or `raise <ClassName>:<hex msg>`, or
`unicode <codec> <hex object> <start> <end> <reason with _ for spaces>`; `bad-input` for an unparsable line.
-/
open FR FR.Client

partial def parseReply : List Char → Option (Reply × List Char)
  | 'n' :: 'i' :: 'l' :: rest => some (.nil, rest)
  | 'i' :: ':' :: rest =>
    let tok := rest.takeWhile fun c => c != ',' && c != ']'
    (String.ofList tok).toInt?.map fun n => (.int n, rest.drop tok.length)
  | k :: ':' :: rest =>
    let tok := rest.takeWhile fun c => c != ',' && c != ']'
    match fromHexChars tok with
    | none => none
    | some b =>
      let rest := rest.drop tok.length
      match k with
      | 'b' => some (.bulk b, rest)
      | 's' => some (.status b, rest)
      | 'e' => some (.err b, rest)
      | _ => none
  | '[' :: ']' :: rest => some (.arr [], rest)
  | '[' :: rest =>
    let rec items (cs : List Char) (acc : List Reply) : Option (List Reply × List Char) :=
      match parseReply cs with
      | none => none
      | some (r, ',' :: cs') => items cs' (r :: acc)
      | some (r, ']' :: cs') => some ((r :: acc).reverse, cs')
      | some _ => none
    (items rest []).map fun (xs, cs) => (.arr xs, cs)
  | _ => none

def parseCfg (t : String) : Option Cfg :=
  match t.splitOn "," with
  | [d, e, h] =>
    let enc := match e with | "utf8" => some Encoding.utf8 | "latin1" => some .latin1 | "ascii" => some .ascii | _ => none
    let errs := match h with | "strict" => some Errors.strict | "replace" => some .replace | "ignore" => some .ignore | _ => none
    match enc, errs with
    | some enc, some errs => some { decodeResponses := d == "1", encoding := enc, errors := errs }
    | _, _ => none
  | _ => none

def handle (line : String) : String :=
  match (line.trimAscii.toString.splitOn " ").filter (· != "") with
  | [cfg, disable, reply] =>
    match parseCfg cfg, parseReply reply.toList with
    | some cfg, some (r, []) => renderResult (decodeReply cfg (disable == "1") r)
    | _, _ => "bad-input"
  | _ => "bad-input"

partial def loop (h out : IO.FS.Stream) : IO Unit := do
  let line ← h.getLine
  if line.isEmpty then return ()
  out.putStrLn (handle line)
  out.flush
  loop h out

def main : IO Unit := do
  loop (← IO.getStdin) (← IO.getStdout)
