#!/usr/bin/env python3
"""Evaluate source changes against the checks WITHOUT touching /repo: every worker has its own copy of /verif (with its
build output) and its own detached worktree of /repo; the checks read the patched worktree through FR_REPO.

  tools/eval_isolated.py <jobs.json> <out.json> [workers]

jobs.json: [{"id": ..., "patch": <path>, "props": ["C01", ...], "seed": 0}, ...]
out.json:  {id: {"apply": "ok"|"failed: ...", "results": {prop: {"exit": n, "lines": [...], "wall_s": s}}}}
Scratch copies live under /tmp/ev/<k> and are removed at the end."""
import json, os, queue, shutil, subprocess, sys, threading, time

VERIF = os.path.dirname(os.path.dirname(os.path.abspath(__file__)))
REPO = '/repo'
BASE = '/tmp/ev'


def sh(cmd, cwd=None, env=None, timeout=3000):
    p = subprocess.run(cmd, cwd=cwd, env=env, stdout=subprocess.PIPE, stderr=subprocess.STDOUT, timeout=timeout)
    return p.returncode, p.stdout.decode('utf-8', 'replace')


def worker(k, jobs, out, lock):
    d = os.path.join(BASE, str(k))
    shutil.rmtree(d, ignore_errors=True)
    os.makedirs(d)
    v, r = os.path.join(d, 'verif'), os.path.join(d, 'repo')
    sh(['cp', '-r', VERIF, v])
    shutil.rmtree(os.path.join(v, '.git'), ignore_errors=True)
    sh(['git', '-C', REPO, 'worktree', 'add', '--detach', r, 'HEAD'])
    try:
        while True:
            try:
                job = jobs.get_nowait()
            except queue.Empty:
                break
            sh(['git', '-C', r, 'reset', '-q', '--hard', 'HEAD'])
            sh(['git', '-C', r, 'clean', '-fdq'])
            rc, o = sh(['git', '-C', r, 'apply', job['patch']])
            if rc != 0:
                rc, o = sh(['git', '-C', r, 'apply', '--3way', job['patch']])
                if rc != 0:
                    sh(['git', '-C', r, 'reset', '-q', '--hard', 'HEAD'])
            res = {'apply': 'ok' if rc == 0 else 'failed: ' + o[-300:], 'results': {}}
            if rc == 0:
                for p in job['props']:
                    env = dict(os.environ, FR_REPO=r, VERIF_SEED=str(job.get('seed', 0)))
                    t0 = time.time()
                    try:
                        rc2, o2 = sh([os.path.join(v, 'check'), p, '--tier', 'quick'], cwd=v, env=env, timeout=2400)
                    except subprocess.TimeoutExpired:
                        rc2, o2 = 124, 'TIMEOUT'
                    lines = [l for l in o2.split('\n') if l.startswith(('VIOLATION', 'KNOWN-FINDING', 'INTERNAL'))][:4]
                    tail = o2.strip().split('\n')[-1][:300]
                    res['results'][p] = {'exit': rc2, 'lines': lines, 'tail': tail, 'wall_s': round(time.time() - t0, 1)}
                    if job.get('stop_on_catch') and rc2 == 1:
                        break
            with lock:
                out[job['id']] = res
                print(job['id'], res['apply'], {p: x['exit'] for p, x in res['results'].items()}, flush=True)
    finally:
        sh(['git', '-C', REPO, 'worktree', 'remove', '--force', r])
        shutil.rmtree(d, ignore_errors=True)


def main():
    jobs_l = json.load(open(sys.argv[1]))
    n = int(sys.argv[3]) if len(sys.argv) > 3 else 4
    jobs = queue.Queue()
    for j in jobs_l:
        jobs.put(j)
    out, lock = {}, threading.Lock()
    ts = [threading.Thread(target=worker, args=(k, jobs, out, lock)) for k in range(min(n, len(jobs_l)))]
    for t in ts:
        t.start()
    for t in ts:
        t.join()
    json.dump(out, open(sys.argv[2], 'w'), indent=1)
    sh(['git', '-C', REPO, 'worktree', 'prune'])


if __name__ == '__main__':
    main()
