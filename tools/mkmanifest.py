#!/usr/bin/env python3
"""Writes MANIFEST.json from the table below (single source of truth for the claims)."""
import json, os
HERE = os.path.dirname(os.path.dirname(os.path.abspath(__file__)))
props = [json.loads(l) for l in open(os.path.join(HERE, 'properties.jsonl'))]
ids = [p['id'] for p in props]

TIE = ('Tie to the code, checked on every run: (a) tools/gen_lean.py regenerates FR/Generated from /repo and the leaf library Bridge proves it equal to '
       'the frozen model tables (139 signatures, messages, constants, _fix_range*, check_arity; since round 4 also Bridge/Mech: CommandItem value/expireat setters, update, updated, __bool__, writeback and Database.expired translated statement by statement from the AST and proved equal to CI.* and Db.expired of the model, and Bridge/Effects: per-command effect atoms extracted from the body ASTs agree with the read / in-place / replacing / regular-vs-server-level classification); (b) differential correspondence: the real FakeSocket objects and the compiled Lean model run the same generated '
       'histories under a logical clock and recorded random picks; replies and the live state of all databases, subscription tables and '
       'connection modes are compared after every event. ')
NOTE = ('Trusted: Lean kernel (+ leanchecker in thorough); axioms printed per theorem (only propext, Classical.choice, Quot.sound); the translator; the '
        'correspondence harness and its canonicalisation; the hand-written model is validated against the code by the correspondence, not verified. '
        'CPython, sortedcontainers and redis-py behaviour is modelled. ')

CLAIMS = {
 'C01': dict(text='Lean theorems over all byte strings / integers: GETRANGE window = declarative spec (getrange_window), SETRANGE byte-wise spec, APPEND, '
        'INCR-family exact-or-refused with canonical stored decimal (incr_overflow_refused_unchanged), SETBIT/GETBIT laws; the string/key/TTL command '
        'bodies are part of the executable model used as the Redis specification. ' + TIE,
        note=NOTE + 'The Redis side of "as Redis does" is the Lean spec transcribed from the Redis reference; INCRBYFLOAT digits, error precedence and crafted RESTORE payloads follow the code (README deviations).',
        technique='Lean 4 refinement theorems (model = declarative spec) + differential correspondence', design='7 C01'),
 'C02': dict(text='Lean theorems for all lists and all integer arguments: LRANGE = declarative window (lrange_eq_spec), LTRIM keeps the LRANGE window, LINDEX/LSET '
        'by normalised index, pops conserve elements, RPOPLPUSH on one key rotates, LREM exact semantics (lrem_eq_spec), SPOP/SRANDMEMBER picks are members '
        'with the prescribed cardinality for every recorded random choice. ' + TIE,
        note=NOTE + 'Set-ordered replies are compared as multisets; random picks and set iteration order are passed to the model as hints which it validates.',
        technique='Lean 4 refinement theorems + differential correspondence with validated hints', design='7 C02'),
 'C03': dict(text='Lean theorems: pairLt is a strict total order on non-NaN (score, member); the invariant ZSet.Inv (byscore strictly sorted, members unique, the two '
        'indexes agree, no NaN) is preserved by add/discard and by ZADD/ZINCRBY/ZREM/ZREMRANGE* bodies; rank = index, ZCOUNT = |ZRANGEBYSCORE|, the bisect '
        'windows equal the declarative inclusive/exclusive filter; ZADD/ZINCRBY never store NaN. Scores are an exact binary64 model. ' + TIE +
        'A monitor also checks the invariant on the real _byscore/_bylex after every event.',
        note=NOTE + 'The soft-float arithmetic and decimal->double are proved correctly rounded (C18a, C18f); the %.17g / %.17f formatting is validated bit-for-bit against CPython, and CodecLaw (17 digits round-trip) is sampled.',
        technique='Lean 4 invariant proofs + differential correspondence', design='7 C03'),
 'C04': dict(text='Lean theorems: tryParse (encodeRequest fields ++ rest) = (fields, rest) for arbitrary bytes; a complete request is prefix-stable; parsing a stream in any two '
        'chunks equals parsing it at once (parseAll_append_general); the Bridge theorem callArity_ok shows no accepted argument count makes a Python body raise TypeError. ' + TIE +
        'Monitors on the implementation: exactly one reply per request (per channel for (P)SUBSCRIBE/(P)UNSUBSCRIBE), well-formed replies, no foreign exception; a crash is a first-class '
        'outcome of the model. (P)SUBSCRIBE/(P)UNSUBSCRIBE inside MULTI (was known finding KF-1) are refused at queue time since fix F37; model and theorems follow.',
        note=NOTE + 'The drain-level chunking theorem is conditional on buffer-independence of processCommand (sendall_append_conditional); the generator-based Python parser is tied by chunked sends.',
        technique='Lean 4 theorems on the parser + differential correspondence incl. malformed stream and random chunking', design='7 C04'),
 'C05': dict(text='Lean theorems on the state-machine model: QUEUED has no effect on data (queued_no_effect), EXEC = clear state then run the queue left to right with the same runner as outside '
        'MULTI (exec_eq_sequential, runInner_eq_runCommand), EXECABORT / nil-on-dirty / without-MULTI / nested-MULTI / WATCH-inside-MULTI branches, normal mode afterwards. ' + TIE,
        note=NOTE + 'Atomicity w.r.t. other clients is the single lock (C12); in the model an EXEC is one event.',
        technique='Lean 4 theorems over the StateM model + multi-connection differential correspondence', design='7 C05'),
 'C06': dict(text='Lean theorem step_notifies_regular: for every regular command body (all 105 table entries) and every database, any change of the live entry of a key '
        '(value, existence, deadline) is accompanied by a watch notification for that key; the unrestricted statement is refuted by a kernel-checked witness (unrestricted_false), '
        'so the theorem carries the per-body discipline ExpModSound, proved for the whole table. EXEC nil-on-dirty and watch clearing are C05 theorems. ' + TIE +
        'A monitor judges every EXEC of the implementation: changed-since-WATCH => nil, untouched => proceeds.',
        note=NOTE + 'Special bodies (MOVE, SWAPDB, FLUSH*, SORT STORE, blocking passes, ZUNIONSTORE) are covered by the correspondence and the monitor, not by the generic theorem.',
        technique='Lean 4 generic theorem over arbitrary command bodies + correspondence + implementation monitor', design='7 C06'),
 'C07': dict(text='Lean theorems run_purge_sim / expired_eq_deleted: for an arbitrary command body, running on a database and on the database with every expired entry removed gives the same reply, '
        'notifications and (purged) result - an expired key is indistinguishable from a deleted one for every regular command. ' + TIE +
        'A metamorphic monitor runs expired/deleted twins on the implementation alone; histories advance the logical clock to just before/after deadlines.',
        note=NOTE + 'Deadlines are exact integers in 100 ns ticks; EXPIRE-family arguments beyond 10^12 are outside the modelled band (float rounding, DESIGN F17).',
        technique='Lean 4 simulation proof on the purge quotient + correspondence + metamorphic twin monitor', design='7 C07'),
 'C08': dict(text='Lean theorems: error_reply_changes_nothing_regular - for every regular command, an error reply implies the purged database is unchanged and nothing was notified; '
        'failed_iff_error_path characterises the error paths; bodies never return an error reply through the success path (regular_reply_not_err). ' + TIE +
        'Monitor: snapshot before = after on every error reply of the implementation; exhaustive (command x stored type) wrong-type matrix.',
        note=NOTE, technique='Lean 4 generic theorem over arbitrary bodies + static validate-first analysis of every body (bridge) + correspondence + implementation monitor', design='7 C08'),
 'C09': dict(text='Lean theorems: no_empty_collections_all_histories - for EVERY history of events (open/close/GC, raw byte writes of any requests of all 139 commands incl. SORT STORE, '
        'ZUNIONSTORE, scripts, EXEC blocks, blocking wake-ups and time-outs, both front-ends) every database dictionary has unique keys and stores no empty collection; lookup_never_empty; '
        'one-step forms for arbitrary command bodies (no_empty_collections); a key that becomes live was notified as a write target (reads_create_nothing_regular). ' + TIE + 'Monitor: after every event DBSIZE = |KEYS *| = |complete SCAN|, EXISTS and TYPE agree, no stored empty collection, in every database.',
        note=NOTE, technique='Lean 4 invariant proof + correspondence + five-views monitor', design='7 C09'),
 'C10': dict(text='Lean theorems: deliveries_spec (exactly the channel subscribers then one pmessage per matching pattern subscription, nobody else), publish_spec (count = deliveries), '
        'subscribe/unsubscribe acknowledgements incl. idempotence and the single ack for an empty unsubscribe, channels_global. Pattern matching is glob_correct (C16). ' + TIE +
        'Monitor: an independent Python reference of the subscription tables using a port of Redis glob.',
        note=NOTE + 'PUBLISH from another THREAD to an asyncio subscriber is outside the model (asyncio.Queue is not thread-safe; noted in DESIGN 17.4).', technique='Lean 4 theorems over the StateM model + multi-connection correspondence + reference monitor', design='7 C10'),
 'C11': dict(text='Lean theorems: a pass serves the first key (in the order given) holding a live non-empty list and takes exactly one element (bpopPass_served_in_key_order), returns nothing iff none does '
        '(bpopPass_none_iff), WRONGTYPE only on the first pass, every modified write-back wakes every connection parked on that database (push_wakes_parked, notify_wakes_all_parked), '
        'never parks inside MULTI/EXEC, a wake-up either serves with exactly one reply or leaves the client parked, a time-out reply only if unserved and the deadline passed. '
        'Partial beyond that: the blocking state machine (attempt, park, wake-up re-check, time-out) is part of the executable model; an explicit scheduler runs the real _blocking code in worker threads with a '
        'hand-off condition variable so that every order of critical sections is an event list replayed on the model (replies, parked set and notified flags compared). Monitors: conservation of '
        'elements, no parked un-notified consumer on a non-empty list, never parks inside EXEC, wait() arguments within the requested time-out; plus a real-thread smoke run.',
        note=NOTE + 'threading.Condition, real time-outs and the GIL are not in the model (runtime behaviour it cannot exhibit).',
        technique='Lean 4 theorems on the blocking state machine + scheduler-driven trace correspondence', design='7 C11'),
 'C12': dict(text='Partial. Lean theorems about the lockset discipline: for every well-locked trace of lock operations, shared-object accesses and command call/return events, the '
        'access sequence is the concatenation of the critical sections in acquisition order (welllocked_serial), the section order respects real-time precedence and program order, and '
        'the commands at their last critical section form a valid linearization order (linearization_exists); the executable checker agrees with the specification (checker_agrees). '
        'Tie: real threads (2-8, switch interval 1e-6) run command programs on a FakeServer whose lock, database dictionaries, database table and subscriber tables are instrumented; the '
        'compiled Lean checker validates every recorded trace and the commands are replayed in the proven linearization order through the sequential model, comparing every reply; '
        'concurrent first connections are a separate scenario.',
        note=NOTE + 'Not proved: that every schedule of the Python code is well-locked (bytecode pre-emption is outside the model); the evidence reports how many real traces were validated.',
        technique='Lean 4 lockset serialisability theorem + static lock-discipline check of the source (generated tables, kernel-checked) + trace validation of real-thread runs against the sequential model', design='7 C12'),
 'C14': dict(text='Lean theorems: for every command other than the three blocking pops (and scripts) the asyncio mode and the sync mode of the model are the same function (special_mode_irrelevant_nonblocking, '
        'processCommand_mode_irrelevant, EXEC included); a blocking pop served at once or inside MULTI behaves identically; otherwise it parks and pauses only its own connection '
        '(blockingAsync_parks_and_pauses, only_own_connection_suspends), a paused connection only buffers (paused_buffers), and the re-try task emits exactly one reply before resuming the parser '
        '(wakeConnAsync_one_reply, timeoutConnAsync_one_reply). Tie: the real AsyncFakeSocket, its re-try task and async_timeout run under a virtual-time event loop against the same Lean model '
        'as the sync socket (all command families, blocking pops served / timed out, requests pipelined behind them).',
        note=NOTE + 'Partial: the real event loop and async_timeout are replaced by a virtual-time SelectorEventLoop; the reply-first ordering theorem is conditional on processCommand only appending to the output.',
        technique='Lean 4 theorems on the asyncio mode of the model + virtual-time-loop correspondence', design='7 C14'),
 'C19': dict(text='Partial. The script bridge is part of the executable model: argument conversion, result conversion in both directions (ok/err tables, truncation at nil, float->int, true->1, false->nil), the '
        'no-script flag, numkeys validation, error wrapping per version, the script cache commands. The Lua host is external: a stand-in host runs the scripts and the harness records every redis.call / '
        'pcall with its Lua arguments and the value handed back to Lua, plus the final Lua value; the model re-executes each call with the runner used for direct commands (from_script = True), '
        'checks it computes the same value the host received, and converts the final value. Lean theorems: conversion_table_to_lua / conversion_table_to_reply (every row of the '
        'documented table), roundtrip_reply (a reply handed to a script and returned comes back unchanged), luaToArg_spec (only strings and numbers), noscript_refused (exactly the 17 flagged '
        'commands), eval_numkeys_validation, cache_agreement (LOAD/EXISTS/FLUSH/EVALSHA agree), hint_codec_roundtrip.',
        note=NOTE + 'lupa is not installed: harness/lupa_standin (a Lua-subset interpreter) is part of the trusted base; SHA-1 is external (passed as a hint).',
        technique='Lean 4 theorems on the script bridge (conversion tables, cache, gates) + trace correspondence on a stand-in Lua host', design='7 C19'),
 'C20': dict(text='Lean theorems: outage_no_effect (while disconnected every write raises ConnectionError and the state is unchanged), reconnect_restores, closed_socket_forgotten (after close and the clean-up run by the '
        'next command of any client the connection is in no subscriber set, has no watches and PUBLISH never delivers to it), gc_equivalent_to_close, cleanup_idempotent_for_others, '
        'other_exec_ignores_queue_regular. Tie: outage toggles, close and GC events inserted in multi-connection histories on the real sockets; redis-py level: every command raises ConnectionError '
        'during an outage and data/TTLs/scripts are as before afterwards; clients closed, pool-disconnected or garbage-collected while subscribed / watching / mid-transaction leave no trace.',
        note=NOTE + 'Partial: GC timing and weak-reference callbacks are CPython behaviour; the harness forces gc.collect().',
        technique='Lean 4 theorems on the life-cycle events of the model + correspondence + client-level monitor', design='7 C20'),
 'C13': dict(text='Lean theorems: a regular command changes only the selected database and its reply is independent of the others (regular_frame_other_dbs, regular_independent_of_other_dbs); '
        'SELECT persists per connection; a new connection starts on db 0. ' + TIE + 'Monitor: frame condition on the implementation for every command except MOVE/SWAPDB/FLUSHALL.',
        note=NOTE + 'Client construction forms (server=, from_url, asyncio) are exercised by the client-level harness when available.',
        technique='Lean 4 non-interference theorem + multi-database correspondence + frame monitor', design='7 C13'),
 'C15': dict(text='Lean theorems for all element lists, all COUNT >= 1: scan_complete (following cursors from 0 returns exactly the (filtered) sorted elements once each), scan_terminates '
        '(ceil(n/count) calls), scan_errors (characterisation of the error replies), missing key => empty. ' + TIE + 'Thorough: sizes 0..25 x COUNT 1..30 x 4 commands exhaustively.',
        note=NOTE, technique='Lean 4 induction over the cursor iteration + correspondence', design='7 C15'),
 'C16': dict(
   text='Theorem glob_correct: for every pattern and every non-empty subject the atom model of compile_pattern (compile + anchored '
        'backtracking matcher) agrees with a Lean port of Redis stringmatchlen; compile is a total function. The model is tied to the code '
        'by comparing compile_pattern(p).match(s) with both on random and (thorough) exhaustively enumerated small pairs, and through KEYS / '
        'SCAN MATCH / PSUBSCRIBE in whole-system histories.',
   note='Trusted: Lean kernel; that CPython re implements the textbook semantics on the regex fragment compile_pattern emits (the text itself is compared, its '
        'meaning is proved in C16r); the Lean port of stringmatchlen (also cross-checked against an independent Python port). Bytes >= 0x80 in ranges follow the code '
        '(unsigned), README item 5.',
   technique='Lean 4 theorems (glob = Redis matcher; emitted regex text denotes that language) + differential correspondence incl. the regex text', design='7 C16'),
 'C17': dict(text='Lean theorems: tryParse_encode for arbitrary bytes (payloads are taken by length), command-name normalisation touches only the first field and queued arguments are kept verbatim '
        '(multi_queues_args_unchanged). ' + TIE + 'Binary round trips (all 256 byte values, CR LF, NUL, empty, 100 kB) through every container type, MULTI and pub/sub; redis-py client level '
        'with decode_responses on/off. Client-side decoding is part of the model since round 4 (FR/Sys/Client.lean: read_response/_decode of both front-ends with the utf-8 / latin-1 / ascii '
        'codecs and the strict / replace / ignore handlers, exact incl. CPython error spans) with FR.Props.C17c: decode_every_bulk (iff: the result is the reply with every bulk at every depth '
        'replaced by its decoding and nothing else changed), decode_structure, decode_disabled_identity, decode_roundtrip, decode_strict_fails_iff, decode_lenient_total, status_like_bulk, '
        'raised_iff_toplevel; tied by a compiled driver (clientdriver) against the real sync and asyncio connections on random nested replies in every configuration.',
        note=NOTE + "redis-py's Encoder and CPython's codecs are modelled (FR/Sys/Client.lean) and tied differentially, not verified.", technique='Lean 4 parser theorems + client decoding model with theorems + binary round-trip correspondence', design='7 C17'),
 'C18': dict(text='Lean theorems: int_decode_iff (accepted iff canonical decimal within range) for Int/DbIndex/BitOffset/BitValue/Timeout, encode_guard, float converters never return NaN and reject '
        'underscores / leading / trailing whitespace. ' + TIE + 'Function-level correspondence of every converter on decorated literals; the exact binary64 model against CPython '
        '(parse, %.17g, %.17f, +, *) on boundary and random doubles; strtod-grammar judgement of accepted floats.',
        note=NOTE + 'Proved: decimal->double and +, * are IEEE round-to-nearest-even (C18f, C18a); validated only: %.17g / %.17f formatting, the 17-digit round trip in general. Hex floats and over/underflow are refused as the code does.',
        technique='Lean 4 theorems on the converters + bit-exact differential check against CPython', design='7 C18'),
}

EXTRA = {
 'C01': 'Key-space refinement (FR.Props.C01k): every table command is a function of the clock and the live key space (refinement, history_refinement); full SET option decision table for both versions (set_table), '
        'MGET/MSET/MSETNX all-or-nothing, INCR family incl. the refused INT64_MIN decrement, INCRBYFLOAT, DEL/UNLINK/EXISTS/TYPE/BITCOUNT, RENAME(NX) moves value and deadline, DUMP/RESTORE round trip and independent copy for every type (FR.Props.C01d: lists/hashes exact, sets up to order, sorted sets bit-exact under the invariant). ',
 'C02': 'Hashes as finite maps and sets as membership predicates (FR.Props.C02h: hset/hdel/hincrby/hincrbyfloat, sunion/sinter/sdiff and their STORE forms, smove, pfadd/pfcount/pfmerge, wrong-type refusals, invariants preserved); '
        'SORT (FR.Props.C02s: option grammar, numeric_sort = the unique stable sorted permutation with ties by element, alpha_sort, limit_slice, by_nosort, by_weight, get_expansion, store, last_by_decides). ',
 'C03': 'ZUNIONSTORE/ZINTERSTORE functional specification (FR.Props.C03s: membership, score = fold of the aggregate over weight*score over sources sorted by cardinality with the NaN->0 rule where the code applies it, stored set satisfies the invariant, run_ok / run_error through the dispatcher, watchers notified). ',
 'C04': 'Chunking independence is now unconditional (FR.Props.C04s): bufIndependent proves that command processing neither reads nor writes the input buffer (all special commands, EXEC, scripts), hence sendall a; sendall b = sendall (a ++ b), sendChunks_flatten and chunking_irrelevant for every chunking of every byte stream while the connection is alive; aliveness_needed is the KF-1 witness. ',
 'C06': 'System level, every event and history (FR.Props.C06s): step_sound / request_sound (any change of the live entry of a watched key, by any command of any client incl. MOVE, SWAPDB, FLUSH*, SORT STORE, ZUNIONSTORE, blocking wake-ups, EXEC inner commands, scripts, sets the flag), sticky, quiet_keeps_watch, history_changed + exec_nil_after_change ("even if later changed back"), regular_flag_exact (only a notification of a watched key sets it); FR.Props.C06k: the notified keys of every regular command are a sublist of its key arguments, read commands notify nothing, exec_proceeds (EXEC runs its queue after any history of commands that name no watched key), and which keys each special command may notify; kernel-checked witnesses that the clock exclusion is necessary and that a state-wise reading fails for pipelined UNWATCH/SET/WATCH. ',
 'C07': 'Twin simulation over every event (FR.Props.C07s): twin_step, twin_history, expired_eq_deleted_forever - a state with an expired key and the state with that key deleted are indistinguishable by any history with a monotone clock (clock_backwards_resurrects shows the hypothesis is necessary). TTL rules (FR.Props.C07t): ttl_cases with the half-up rounding rule, EXPIRE family / PERSIST, SETEX / SET EX|PX / RESTORE, replacing commands clear (set_general, getset, mset, *STORE), in-place commands keep (inplace_general, inplace_commands_keep, pfmerge_keeps), RENAME / MOVE carry the deadline, inside_exec. ',
 'C08': 'Every command (FR.Props.C08s): error_reply_changes_nothing at processCommand level (databases purge-equal, subscription tables, scripts, every other connection identical; own connection only txFailed inside MULTI), each erring inner command of EXEC and each erring redis.call, wrongtype_request; the short-circuit on a missing first key is the one exception (wrongtype_masked_by_missing_key). ',
 'C11': 'Histories (FR.Props.C11s): no_lost_wakeup is an invariant of every reachable state over all commands; stored lists are never empty; wake_conserves / bpop_pass_conserves; a wake-up serves the first non-empty key with its head/tail element. ',
 'C13': 'All commands (FR.Props.C13s): request_frame (every command except SWAPDB/MOVE/FLUSHALL/EXEC/EVAL leaves every other database identical), exact effect of SWAPDB / MOVE / FLUSHALL / FLUSHDB, exec_frame, request_noninterference and history_independent_of_other_dbs, wake/timeout frames, tightness witnesses for each excluded command. ',
 'C15': 'Commands at system level (FR.Props.C15s): scan_iteration (following the cursors of SCAN through processCommand returns the sorted live keys filtered by MATCH and TYPE once each in scanCalls requests, database only purged), sscan/hscan/zscan_iteration, error and missing-key cases, interleaved_miss (documented) and interleaved_guarantee. ',
}
EXTRA4 = {
 'C02': 'Lists as a refinement to abstract lists (FR.Props.C02l, 49 theorems): push/pushx/linsert/pop with and without count per version/lset/lrem/ltrim/rpoplpush/lmove in all four directions incl. the same key, '
        'the first blocking pass = pop of the first list in argument order, history_refinement and system_history. ',
 'C03': 'Command specifications through the runner (FR.Props.C03z, 55 theorems): zadd_table (NX/XX/CH/INCR), zincrby/zrem/zscore/zrank, zrange windows, score and lex ranges as filters with LIMIT, zremrangeby* = what the range read returns, '
        'agreement corollaries at reply level, the -0 rule per version. ',
 'C07': 'EXPIRE/PEXPIRE/EXPIREAT refuse deadlines beyond the signed 64-bit millisecond range (F36): expire/pexpire/expireat_rule restated at full strength, *_overflow_refused. ',
 'C09': 'The five views at system level (FR.Props.C09v, 51 theorems): dbsize/keys/exists/type/randomkey_spec through processCommand, views_agree (KEYS * = DBSIZE = complete SCAN; k in KEYS iff EXISTS iff TYPE != none iff scanned), '
        'last_element_removal_deletes (generic + list/set/hash/zset families), noop_write_creates_nothing, read_creates_nothing. ',
 'C11': 'History-level conservation (FR.Props.C11c, 24 theorems): for every legal history of the list family incl. MULTI/EXEC, wake-ups and time-outs from empty databases stored + delivered = pushed as multisets '
        '(conservation, conservation_perm, delivered_or_stored, at_most_once); the exclusion of closing a parked connection is shown necessary. ',
 'C18': 'Float grammar (FR.Props.C18f, 70 theorems): float_decode_iff for all byte strings against an independent declarative strtod grammar, value = round-to-nearest-even of the denoted rational (half-ulp, tie-even, monotone, exact integers), '
        'the four converter flags as iffs, incrbyfloat/hincrbyfloat_never_stores_nonfinite, zadd_zscore_roundtrip_partial under the per-double hypothesis CodecAt. ',
}
EXTRA5 = {
 'C03': 'Score arithmetic is proved, not only validated (FR.Props.C18a, see C18): ZINCRBY / ZADD INCR store the correctly rounded sum, SCORE_NAN exactly for inf + -inf; the ZUNIONSTORE score formula is the rounded product / sum with NaN->0 only for inf*0 and inf-inf. ',
 'C04': 'Round 5 (FR.Props.C04k, 47 theorems, after fix F37): the queue invariant TxWf (no (P)SUBSCRIBE/(P)UNSUBSCRIBE, no EXEC/DISCARD/MULTI/WATCH, only known names in any transaction queue) holds in every reachable state; '
        'processCommand_never_crashes / unconditional_no_crash / event_never_crashes / reachable_conn_alive: no request of any history kills a connection or raises anything but the emulated ConnectionError - without exclusions since script commands queued inside MULTI are modelled (FR.Props.C19m); '
        'reply counts: exactly one reply for unknown / wrong-arity / queued / refused / executed commands, one per argument for (P)SUBSCRIBE, max(1, subscriptions) for an empty (P)UNSUBSCRIBE, 0 or 1 for a blocking pop; '
        'subscribe_in_multi_refused, exec_after_refusal_aborts; the chunking theorems without aliveness hypotheses on reachable states. Bridge: notInMulti_eq (the refused list is extracted from _process_command). '
        'Reply ORDER (FR.Props.C04o, 34 theorems): processCommand / drain / sendall / every wake-up, time-out and event only ever PREPEND to the output (processCommand_out_suffix …, unconditional); replies_in_request_order: for a pipelined write of n requests that do not park, the replies of the connection are the per-request '
        'own-reply lists concatenated in request order; n_requests_n_replies: n plain requests (anything but pub/sub commands, parking pops and the empty request) get exactly n replies, the i-th being the answer to the i-th request computed in the state after the first i-1 (pub/sub pushes to the own connection are accounted for exactly). FR.Props.C04q (21 theorems): on the synchronous front-end no request ever pauses any connection (sync_never_pauses, through every special body, EXEC and scripts), so replies_in_request_order_sync and n_requests_n_replies_sync hold with no '
        'hypothesis on parking; publish_not_listed (a connection in no subscriber list receives nothing from PUBLISH). ',
 'C05': 'Round 5: refused_in_multi(_eq) - the four pub/sub commands inside MULTI are answered with the fixed error, poison the transaction and queue nothing; db matrix also in C05 (fresh databases created inside EXEC carry the clock). ',
 'C08': 'Round 5, tie (a) for the modelling decision "an error carries no state": tools/gen_purity.py runs a forward abstract interpretation over the AST of all 139 command bodies on every check (no raise / raising call can execute after the body changed a CommandItem, a stored container, '
        'the database, the server or the connection; loops twice, try/handler states, lazily consumed generators) and Bridge/Purity proves purity_bodies_validate_first (empty for every command except EXEC and EVAL, whose errors are specified to follow a change) and purity_covers_all_commands. ',
 'C10': 'Round 5: (P)SUBSCRIBE/(P)UNSUBSCRIBE inside MULTI are refused (process_refused, dispatchBody_refused); life-cycle cases with coinciding channel / pattern names. ',
 'C11': 'Round 5 (FR.Props.C11r): reply_count_blocking - exactly when a BLPOP/BRPOP request parks (first pass finds no live non-empty list, the mode parks, the time-out is valid: no reply, connection parked on the given keys and database, paused on the asyncio front-end) and otherwise its ONE reply (popped pair, WRONGTYPE, invalid time-out, nil in a non-parking mode); '
        'blocking_in_exec_one_reply (as an inner command of EXEC it never parks and contributes exactly one element). FR.Props.C11s2: the same for BRPOPLPUSH (runCommand_brpoplpush_exact, reply_count_brpoplpush; an invalid time-out is refused by Signature.apply and changes nothing). ',
 'C12': 'Round 5, the well-lockedness hypothesis established statically for the current source (tie (a)): tools/gen_locks.py extracts, per method and nested function of FakeSocket / AsyncFakeSocket, the shared-state accesses and call edges with their lexical lock status (Generated/Locks); '
        'Bridge/Locks proves locks_sync_disciplined / locks_async_disciplined / locks_tables_meaningful on the generated tables; FR.Props.C12l.disciplined_sound: if the check passes, every access at the end of every call path of any length from every root happens with the lock held or is one of four '
        'benign accesses quoted from the code; bodies_run_under_the_lock. FR.Props.C12t links the table to the trace model: an operational semantics of one thread executing a command through the table (Exec), exec_accesses_locked (for a disciplined table every trace of every execution from a root has no discipline violation except the listed benign reads; brackets are well-formed), '
        'single_thread_wellLocked_partial (wellLocked holds for such a trace, i.e. the hypothesis of welllocked_serial / linearization_exists), and the two local lemmas of the interleaving argument (other_thread_frame, own_event_verdict: only acq-while-held is non-local, which is the mutual exclusion of the lock itself). Scheduler plans: an EXEC with blocking pops inside never releases the lock half-way; threads started by the implementation are traced (acq-outside-command). ',
 'C13': 'Round 5 (FR.Props.C13w, 17 theorems): the frame and non-interference theorems lifted from single requests to RAW WRITES and to histories containing them: sendall_frame (a write whose processed requests are none of SELECT / SWAPDB / MOVE / FLUSHALL / EXEC / EVAL / EVALSHA leaves every other database identical - any pending buffer, any number of pipelined or split requests), '
        'send_noninterference, history_noninterference_send / history_independent_of_other_dbs_send; tightness witness pipelined_flushall_touches_other_db. ',
 'C14': 'Round 5 (FR.Props.C14p, 21 theorems): the order sentence of the property - a write to a parked connection commutes with the retry task and with the time-out (buffered_then_wake_eq_wake_then_send, buffered_then_timeout_eq_timeout_then_send), '
        'pipelined_behind_parked_pop (after the write encodeRequest blk ++ rest nothing of rest is processed and no reply is sent; when the pop is served its reply comes FIRST and then rest is processed exactly as if written at that moment), pipelined_one_by_one, two_parking_pops. '
        'locks_async_disciplined (Bridge/Locks) also covers the re-try task, its callbacks and close(); one-write pipelines behind a parked pop, blocking pops queued in MULTI, spoiled re-checks, sync-vs-asyncio differential under decode_responses / latin-1 with nested replies. ',
 'C16': 'Round 5 (FR.Props.C16r, 18 theorems): the model now contains the regex TEXT compile_pattern emits (FR/Glob/Render.lean, compared byte for byte with compile_pattern(p).pattern for every pattern the check evaluates); parseRx reads that text back into a regular expression with the textbook '
        'language semantics Rx.Matches (independent of the matcher); render_parses, compile_ok, matchA_iff_language (the backtracking matcher decides exactly that language), regex_text_denotes_redis_glob (for every pattern and non-empty subject the emitted text denotes a language that contains the subject iff '
        'Redis stringmatchlen accepts), compile_never_fails (the text is always a well-formed regex of the fragment), lexical facts (every special byte is escaped or structural; no escape forms a class shorthand or back-reference). What stays trusted shrinks to: CPython re implements textbook semantics on this fragment. ',
 'C18': 'Round 5 (FR.Props.C18a, 80 theorems): the soft-float arithmetic IS IEEE-754 binary64 round-to-nearest-even: a model-independent definition IsRNE of the correctly rounded result, RN is the unique function satisfying it (nearest, half-ulp, ties-to-even, overflow at 2^1024-2^970, underflow at 2^-1075), '
        'add_correctly_rounded / mul_correctly_rounded for all finite operands, signed-zero rules, NaN exactly for inf-inf / inf*0, commutativity, order = order of the values, bit codec round trip, ofInt, truncation; INCRBYFLOAT / HINCRBYFLOAT / ZINCRBY reply and store the correctly rounded sum or refuse. ',
 'C19': 'Round 5 (FR.Props.C19m, 27 theorems): script commands queued inside MULTI are part of the model: runInner_eq_runCommand_all (EXEC runs every queued command, scripts included, exactly like the direct request), exec_eq_sequential_with_scripts, '
        'exec_event_sequential / exec_event_dbs (the whole EXEC incl. the scripts and their redis.calls is one event whose effect is the sequential composition of the direct runs), errors before a script starts (NOSCRIPT, numkeys) are that element of the EXEC array and change nothing, '
        'exec_inner_eval_returns; generated and compared against the code in every C19 run (plan_scripts_tx). ',
 'C20': 'Round 5: locks_sync_disciplined covers close() (lock-free by design, benign access listed) and the reaper loop. ',
}
for _k, _v in list(EXTRA4.items()) + list(EXTRA5.items()):
    EXTRA[_k] = EXTRA.get(_k, '') + _v

NOTE_FIX = {
 'C04': 'The generator-based Python parser is tied by chunked sends. ',
}

PENDING = 'check under construction in this round'

checks, na = [], []
for i in ids:
    if i in CLAIMS:
        c = CLAIMS[i]
        checks.append({
            'property_id': i, 'quick_cmd': './check %s --tier quick' % i, 'thorough_cmd': './check %s --tier thorough' % i,
            'evidence_file': 'evidence/%s.json' % i, 'replay_cmd_template': './check %s --replay {path}' % i, 'engine': 'lean-fr',
            'level_claimed': {'category': 'proof', 'text': c['text'] + EXTRA.get(i, ''), 'design_ref': 'DESIGN.md section ' + c['design']},
            'level_note': (NOTE + NOTE_FIX[i]) if i in NOTE_FIX else c['note'], 'technique': c['technique']})
    else:
        na.append({'property_id': i, 'reason': PENDING})
m = {
 'version': 1,
 'setup_cmd': 'cd lean && lake build FR driver clientdriver Bridge Props && cd .. && /venv/bin/python -m compileall -q harness tools',
 'hooks': {'guard': 'FAKEREDIS_PY_VERIF', 'enable': 'no hook is needed: the harness subclasses FakeSocket and patches module attributes at run time',
           'baseline_off_cmd': 'cd /repo && /venv/bin/python -m pytest -ra -q -p no:cacheprovider --timeout=900', 'source_commits': [], 'add_only': True},
 'engines': [{'name': 'lean-fr', 'path': 'lean', 'serves_properties': sorted(CLAIMS), 'kind_free_text':
              'Lean 4 model FR + property theorems (lake libs FR/Bridge/Props), compiled line-protocol driver, Python differential harness'}],
 'checks': checks,
 'notes': 'Genuine defects repaired in /repo by fix: commits are listed in known_findings.json (status fixed).',
 'not_applicable': na,
}
json.dump(m, open(os.path.join(HERE, 'MANIFEST.json'), 'w'), indent=1)
print('claimed', sorted(CLAIMS), 'pending', len(na))
