#!/usr/bin/env python3
"""Writes MANIFEST.json from the table below (single source of truth for the claims)."""
import json, os
HERE = os.path.dirname(os.path.dirname(os.path.abspath(__file__)))
props = [json.loads(l) for l in open(os.path.join(HERE, 'properties.jsonl'))]
ids = [p['id'] for p in props]

CLAIMS = {
 'C16': dict(
   text='Theorem glob_correct: for every pattern and every non-empty subject the atom model of compile_pattern (compile + anchored '
        'backtracking matcher) agrees with a Lean port of Redis stringmatchlen; compile is a total function. The model is tied to the code '
        'by comparing compile_pattern(p).match(s) with both on random and (thorough) exhaustively enumerated small pairs, and through KEYS / '
        'SCAN MATCH / PSUBSCRIBE in whole-system histories.',
   note='Trusted: Lean kernel; that the atom semantics (matchA) describes CPython re on the regex fragment compile_pattern emits (sampled, not '
        'proved); the Lean port of stringmatchlen (also cross-checked against an independent Python port). Bytes >= 0x80 in ranges follow the code '
        '(unsigned), README item 5.',
   technique='Lean 4 theorem (functional induction over rglob) + differential correspondence', design='7 C16'),
}
PENDING = 'check under construction in this round: model and correspondence exist, proof obligations not yet registered'

checks, na = [], []
for i in ids:
    if i in CLAIMS:
        c = CLAIMS[i]
        checks.append({
            'property_id': i, 'quick_cmd': './check %s --tier quick' % i, 'thorough_cmd': './check %s --tier thorough' % i,
            'evidence_file': 'evidence/%s.json' % i, 'replay_cmd_template': './check %s --replay {path}' % i, 'engine': 'lean-fr',
            'level_claimed': {'category': 'proof', 'text': c['text'], 'design_ref': 'DESIGN.md section ' + c['design']},
            'level_note': c['note'], 'technique': c['technique']})
    else:
        na.append({'property_id': i, 'reason': PENDING})
m = {
 'version': 1,
 'setup_cmd': 'cd lean && lake build FR driver Bridge Props && cd .. && /venv/bin/python -m compileall -q harness tools',
 'hooks': {'guard': 'FAKEREDIS_PY_VERIF', 'enable': 'no hook is needed: the harness subclasses FakeSocket and patches module attributes at run time',
           'baseline_off_cmd': 'cd /repo && /venv/bin/python -m pytest -ra -q -p no:cacheprovider --timeout=900', 'source_commits': [], 'add_only': True},
 'engines': [{'name': 'lean-fr', 'path': 'lean', 'serves_properties': sorted(CLAIMS), 'kind_free_text':
              'Lean 4 model FR + property theorems (lake libs FR/Bridge/Props), compiled line-protocol driver, Python differential harness'}],
 'checks': checks,
 'notes': 'Genuine defects repaired in /repo by fix: commits are listed in known_findings.json (status fixed).',
 'not_applicable': na,
}
json.dump(m, open(os.path.join(HERE, 'MANIFEST.json'), 'w'), indent=1)
print('claimed', sorted(CLAIMS), 'pending', len(na))
