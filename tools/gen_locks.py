"""Static lock discipline of the socket classes, extracted from the AST (part of the translator, called by gen_lean.py).

For every method of `FakeSocket` (fakeredis/_fakesocket.py) and of `AsyncFakeSocket` (fakeredis/_async.py), and for every
function nested inside one of them (closures run later, outside the flow that created them), the table lists

  accesses : (atom, lexically inside `with <server>.lock:`)      atoms:
               S:<attr>   use of an attribute of the server object  (`self._server.<attr>`, `<alias>.<attr>`)
               D          use of an attribute / method of a Database (`self._db.<x>`, `<alias>.<x>`, `server.dbs[...]`)
               T          a reading of the wall clock (`time.time()`)
               P          `put_response` on a socket other than `self` (a delivery to another connection)
               body       the function is a command body (@command): it works on stored values
  calls    : (callee, lexically inside `with <server>.lock:`)    `self.m(...)`, a mention of `self.m` as a value
               (functools.partial / callbacks), `super().m(...)`; the dynamic `func(*args)` of `_run_command` is the
               pseudo callee `@command`; a nested function is "called" where it is defined only if it is invoked there,
               otherwise it is a root of its own
  root     : may be entered from outside without the lock: public methods, `__init__`/`__del__`, coroutines, nested
               functions, generators driven from outside (`_parse_commands`)

`server` aliases: a local name bound from `self._server` (also in a tuple assignment); `db` aliases: bound from `self._db`.
The Lean side (FR/Sys/LockTable.lean, FR/Bridge/Locks.lean) checks that the set of functions reachable from the roots through
call edges that are NOT under the lock contains no access outside the lock except the listed benign ones."""
import ast, os, re

DBNAME = re.compile(r'^(db\d*|.*_db)$')
OTHER_SOCKET = ('put_response', 'notify_watch', 'resume', 'pause', 'close')
DEFERRED = re.compile(r'callback|call_soon|call_later|call_at|create_task|ensure_future|Thread|submit|Timer')


class Unsupported(Exception):
    pass


def lean_str(s):
    return '"' + s.replace('\\', '\\\\').replace('"', '\\"') + '"'


def _is_self(e, attr=None):
    return isinstance(e, ast.Attribute) and isinstance(e.value, ast.Name) and e.value.id == 'self' and (attr is None or e.attr == attr)


def _is_lock_ctx(e, servers):
    """`self._server.lock` or `<server alias>.lock`"""
    if isinstance(e, ast.Attribute) and e.attr == 'lock':
        b = e.value
        return _is_self(b, '_server') or (isinstance(b, ast.Name) and b.id in servers)
    return False


class Fn:
    def __init__(self, name, node, cls, is_command, root):
        self.name, self.node, self.cls, self.is_command, self.root = name, node, cls, is_command, root
        self.accesses, self.calls = [], []


def _aliases(fn):
    """local names bound from self._server / self._db anywhere in the function (flow-insensitive)"""
    servers, dbs = set(), set()
    for a in fn.args.args + fn.args.kwonlyargs:
        if a.arg == 'server':
            servers.add('server')
    for n in ast.walk(fn):
        if isinstance(n, ast.Assign) and len(n.targets) == 1:
            t, v = n.targets[0], n.value
            pairs = []
            if isinstance(t, ast.Name):
                pairs = [(t, v)]
            elif isinstance(t, ast.Tuple) and isinstance(v, ast.Tuple) and len(t.elts) == len(v.elts):
                pairs = list(zip(t.elts, v.elts))
            for tt, vv in pairs:
                if isinstance(tt, ast.Name):
                    if _is_self(vv, '_server'):
                        servers.add(tt.id)
                    if _is_self(vv, '_db'):
                        dbs.add(tt.id)
    return servers, dbs


def analyse_class(cnode, clsname, methods_of_base):
    """-> {qualified name: Fn}"""
    out = {}
    own = {n.name: n for n in cnode.body if isinstance(n, (ast.FunctionDef, ast.AsyncFunctionDef))}
    known = set(own) | set(methods_of_base)

    def is_command(f):
        for d in f.decorator_list:
            g = d.func if isinstance(d, ast.Call) else d
            if isinstance(g, ast.Name) and g.id == 'command':
                return True
        return False

    def visit_fn(qual, f, root, servers_in, dbs_in):
        fn = Fn(qual, f, clsname, is_command(f), root)
        out[qual] = fn
        servers, dbs = _aliases(f)
        servers |= servers_in
        dbs |= dbs_in
        if fn.is_command:
            fn.accesses.append(('body', False))
        nested = {}

        def walk_stmts(stmts, locked):
            for s in stmts:
                walk_stmt(s, locked)

        def walk_stmt(s, locked):
            if isinstance(s, (ast.FunctionDef, ast.AsyncFunctionDef)):
                nested[s.name] = s
                # a nested function handed to a scheduler / callback registry runs later, outside this flow: a root of its own
                deferred = isinstance(s, ast.AsyncFunctionDef)
                for c in ast.walk(f):
                    if isinstance(c, ast.Call):
                        callee = c.func.attr if isinstance(c.func, ast.Attribute) else (c.func.id if isinstance(c.func, ast.Name) else '')
                        if DEFERRED.search(callee) and any(isinstance(a, ast.Name) and a.id == s.name for a in list(c.args) + [k.value for k in c.keywords]):
                            deferred = True
                visit_fn(qual + '.' + s.name, s, deferred, servers, dbs)
                return
            if isinstance(s, (ast.With, ast.AsyncWith)):
                takes = any(_is_lock_ctx(i.context_expr, servers) for i in s.items) and isinstance(s, ast.With)
                for i in s.items:
                    if not _is_lock_ctx(i.context_expr, servers):
                        walk_expr(i.context_expr, locked)
                walk_stmts(s.body, locked or takes)
                return
            for field, val in ast.iter_fields(s):
                if isinstance(val, list):
                    for v in val:
                        if isinstance(v, ast.stmt):
                            walk_stmt(v, locked)
                        elif isinstance(v, ast.expr):
                            walk_expr(v, locked)
                        elif isinstance(v, ast.ExceptHandler):
                            walk_stmts(v.body, locked)
                        elif isinstance(v, ast.match_case):
                            walk_stmts(v.body, locked)
                        elif isinstance(v, (ast.withitem, ast.keyword)):
                            pass
                elif isinstance(val, ast.expr):
                    walk_expr(val, locked)

        def walk_expr(e, locked):
            for n in ast.walk(e):
                if isinstance(n, ast.Lambda):
                    # a lambda is evaluated later: treat its body as run where it is written (conservative enough for
                    # the code base: lambdas are sort keys and predicates applied at once)
                    continue
                if isinstance(n, ast.Attribute):
                    b = n.value
                    # server attribute
                    if (_is_self(b, '_server') or (isinstance(b, ast.Name) and b.id in servers)) and n.attr != 'lock':
                        fn.accesses.append(('S:' + n.attr, locked))
                    # database attribute / method
                    if _is_self(b, '_db') or (isinstance(b, ast.Name) and (b.id in dbs or DBNAME.match(b.id))):
                        fn.accesses.append(('D', locked))
                    # self.m mentioned (called or passed as a value); <other socket>.m for the private / connection-level methods
                    if _is_self(n) and n.attr in known:
                        fn.calls.append((n.attr, locked))
                    elif n.attr in known and (n.attr.startswith('_') or n.attr in OTHER_SOCKET) and not n.attr.startswith('__') \
                            and not (isinstance(b, ast.Call) and isinstance(b.func, ast.Name) and b.func.id == 'super'):
                        fn.calls.append((n.attr, locked))
                if isinstance(n, ast.Call):
                    f_ = n.func
                    if isinstance(f_, ast.Attribute) and f_.attr == 'time' and isinstance(f_.value, ast.Name) and f_.value.id == 'time':
                        fn.accesses.append(('T', locked))
                    if isinstance(f_, ast.Attribute) and f_.attr == 'put_response' and not (isinstance(f_.value, ast.Name) and f_.value.id == 'self'):
                        fn.accesses.append(('P', locked))
                    if isinstance(f_, ast.Attribute) and isinstance(f_.value, ast.Call) and isinstance(f_.value.func, ast.Name) \
                            and f_.value.func.id == 'super':
                        fn.calls.append(('super.' + f_.attr, locked))
                    if isinstance(f_, ast.Name) and f_.id == 'func' and qual.endswith('_run_command'):
                        fn.calls.append(('@command', locked))
                if isinstance(n, ast.Name) and isinstance(n.ctx, ast.Load) and n.id in nested:
                    # called here, or handed to sorted()/filter()/... which apply it at once
                    fn.calls.append((qual + '.' + n.id, locked))

        walk_stmts(f.body, False)
        return fn

    for name, f in own.items():
        root = (not name.startswith('_')) or name in ('__init__', '__del__', '_parse_commands') or isinstance(f, ast.AsyncFunctionDef)
        if is_command(f):
            root = False        # command bodies are reached through `_run_command` only
        visit_fn(name, f, root, set(), set())
    return out


def build_tables(repo):
    fs = ast.parse(open(os.path.join(repo, 'fakeredis', '_fakesocket.py')).read())
    asy = ast.parse(open(os.path.join(repo, 'fakeredis', '_async.py')).read())

    def cls(tree, name):
        c = [n for n in tree.body if isinstance(n, ast.ClassDef) and n.name == name]
        if len(c) != 1:
            raise Unsupported('class %s not found' % name)
        return c[0]

    base = analyse_class(cls(fs, 'FakeSocket'), 'FakeSocket', set())
    base_names = {k for k in base if '.' not in k}
    over = analyse_class(cls(asy, 'AsyncFakeSocket'), 'AsyncFakeSocket', base_names)
    if not any(f.is_command for f in base.values()):
        raise Unsupported('no command bodies found')
    if '_run_command' not in base or not any(c == '@command' for c, _ in base['_run_command'].calls):
        raise Unsupported('_run_command: dynamic call of the command body not found')

    def resolve(table, overlay):
        """rows: name, root, accesses, calls - callee names resolved against the overlay first"""
        rows = []
        allf = dict(table)
        for k, f in overlay.items():
            allf['A:' + k] = f
        commands = sorted(k for k, f in table.items() if f.is_command)
        for key in sorted(allf):
            f = allf[key]
            is_over = key.startswith('A:')
            if not is_over and key.split('.')[0] in {k.split('.')[0] for k in overlay} and overlay:
                # base method hidden by an override: still reachable through super()
                root = False
            else:
                root = f.root
            calls = []
            for callee, locked in f.calls:
                if callee == '@command':
                    calls += [(c, locked) for c in commands]
                elif callee.startswith('super.'):
                    calls.append((callee[6:], locked))
                elif is_over and callee.startswith(key[2:] + '.'):
                    calls.append(('A:' + callee, locked))
                elif ('A:' + callee) in allf:
                    calls.append(('A:' + callee, locked))
                elif callee in allf:
                    calls.append((callee, locked))
            acc = sorted(set(f.accesses))
            rows.append((key, root, acc, sorted(set(calls))))
        return rows

    return resolve(base, {}), resolve(base, over)


def gen_locks(repo):
    sync_rows, async_rows = build_tables(repo)

    def emit(name, rows):
        out = ['def %s : List Fn := [' % name]
        items = []
        for key, root, acc, calls in rows:
            items.append('  ⟨%s, %s, [%s], [%s]⟩' % (
                lean_str(key), 'true' if root else 'false',
                ', '.join('(%s, %s)' % (lean_str(a), 'true' if l else 'false') for a, l in acc),
                ', '.join('(%s, %s)' % (lean_str(c), 'true' if l else 'false') for c, l in calls)))
        out.append(',\n'.join(items))
        out.append(']')
        return out

    out = ['import FR.Sys.LockTable',
           '/-! GENERATED by tools/gen_locks.py: shared-state accesses and call edges of FakeSocket / AsyncFakeSocket with their lexical lock status — do not edit -/',
           'namespace FR.Generated.Locks', 'open FR.LockTable', '']
    out += emit('sync', sync_rows)
    out.append('')
    out += emit('async', async_rows)
    out.append('end FR.Generated.Locks')
    return '\n'.join(out) + '\n'


if __name__ == '__main__':
    import sys
    print(gen_locks(sys.argv[1] if len(sys.argv) > 1 else '/repo'))
