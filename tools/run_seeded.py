#!/usr/bin/env python3
"""Confirm and evaluate the seeded changes.

  tools/run_seeded.py confirm <dir>...   in a scratch worktree: suite passes with the patch, demo fails with / passes without
  tools/run_seeded.py eval [<id>...]     apply each seeded/<id>/patch.diff to /repo, run the checks of its property, revert,
                                         write seeded/RESULTS.md
"""
import json, os, subprocess, sys, time
VERIF = os.path.dirname(os.path.dirname(os.path.abspath(__file__)))
REPO = '/repo'
PY = '/venv/bin/python'


def sh(cmd, cwd=None, env=None, timeout=1800):
    p = subprocess.run(cmd, cwd=cwd, env=env, stdout=subprocess.PIPE, stderr=subprocess.STDOUT, timeout=timeout)
    return p.returncode, p.stdout.decode('utf-8', 'replace')


def confirm(src_dir, wt='/tmp/confirm_wt'):
    """-> dict(ok, detail)"""
    if not os.path.exists(wt):
        sh(['git', '-C', REPO, 'worktree', 'add', '--detach', wt, 'HEAD'])
    sh(['git', '-C', wt, 'checkout', '-q', '--detach', subprocess.check_output(['git', '-C', REPO, 'rev-parse', 'HEAD']).decode().strip()])
    sh(['git', '-C', wt, 'checkout', '--', '.'])
    env = dict(os.environ, PYTHONPATH=wt)
    demo = os.path.join(src_dir, 'demo.py')
    rc0, out0 = sh([PY, demo], cwd=wt, env=env, timeout=300)
    rca, outa = sh(['git', '-C', wt, 'apply', os.path.join(src_dir, 'patch.diff')])
    if rca != 0:
        return {'ok': False, 'detail': 'patch does not apply: ' + outa[-300:]}
    rc1, out1 = sh([PY, demo], cwd=wt, env=env, timeout=300)
    rct, outt = sh([PY, '-m', 'pytest', '-q', '-p', 'no:cacheprovider', '-n', '8', '--timeout=900'], cwd=wt, env=env)
    sh(['git', '-C', wt, 'checkout', '--', '.'])
    tail = [l for l in outt.strip().split('\n') if 'passed' in l or 'failed' in l][-1:]
    ok = rc0 == 0 and rc1 != 0 and rct == 0 and '588 passed' in outt
    return {'ok': ok, 'demo_unchanged': rc0, 'demo_changed': rc1, 'tests': tail, 'demo_output_changed': out1[-400:]}


RELATED = {'C01': ['C01'], 'C02': ['C02'], 'C03': ['C03'], 'C04': ['C04'], 'C05': ['C05'], 'C06': ['C06'], 'C07': ['C07'], 'C08': ['C08'],
           'C09': ['C09'], 'C10': ['C10'], 'C11': ['C11'], 'C12': ['C12'], 'C13': ['C13'], 'C14': ['C14'], 'C15': ['C15'], 'C16': ['C16'],
           'C17': ['C17'], 'C18': ['C18'], 'C19': ['C19'], 'C20': ['C20']}


def evaluate(ids):
    base = os.path.join(VERIF, 'seeded')
    ids = ids or sorted(d for d in os.listdir(base) if os.path.isdir(os.path.join(base, d)))
    rows = []
    for i in ids:
        d = os.path.join(base, i)
        meta = json.load(open(os.path.join(d, 'meta.json')))
        prop = meta['property']
        rc, out = sh(['git', '-C', REPO, 'status', '--short', '--untracked-files=no'])
        if out.strip():
            print('refusing: /repo has uncommitted changes'); sys.exit(2)
        rca, outa = sh(['git', '-C', REPO, 'apply', os.path.join(d, 'patch.diff')])
        results = {}
        try:
            if rca != 0:
                results['apply'] = 'failed: ' + outa[-200:]
            else:
                for p in [prop] + [x for x in meta.get('also_check', []) if x != prop]:
                    t0 = time.time()
                    rc, o = sh([os.path.join(VERIF, 'check'), p, '--tier', 'quick'], cwd=VERIF, timeout=1500)
                    lines = [l for l in o.split('\n') if l.startswith('VIOLATION')]
                    results[p] = {'exit': rc, 'violations': lines[:3], 'wall_s': round(time.time() - t0, 1)}
        finally:
            sh(['git', '-C', REPO, 'checkout', '--', '.'])
        caught = any(isinstance(r, dict) and r['exit'] == 1 for r in results.values())
        meta['evaluation'] = {'caught_by_quick': caught, 'results': results}
        json.dump(meta, open(os.path.join(d, 'meta.json'), 'w'), indent=1)
        rows.append((i, prop, caught, results, meta.get('summary', ''), meta.get('needs', '')))
        print(i, prop, 'CAUGHT' if caught else 'missed', {k: (v['exit'] if isinstance(v, dict) else v) for k, v in results.items()})
    # rows of changes evaluated in earlier runs are kept
    done = {r[0] for r in rows}
    for i in sorted(d for d in os.listdir(base) if os.path.isdir(os.path.join(base, d)) and d not in done):
        try:
            meta = json.load(open(os.path.join(base, i, 'meta.json')))
            e = meta.get('evaluation')
            if e:
                rows.append((i, meta['property'], e['caught_by_quick'], e['results'], meta.get('summary', ''), meta.get('needs', '')))
        except Exception:
            pass
    rows.sort()
    with open(os.path.join(base, 'RESULTS.md'), 'w') as f:
        f.write('# Seeded changes: which quick checks catch them\n\n| id | property | caught | checks (exit, first violation line) | change | needs |\n|---|---|---|---|---|---|\n')
        for i, prop, caught, results, summ, needs in rows:
            cell = '; '.join('%s: %s %s' % (k, v['exit'], (v['violations'][0] if v['violations'] else '')) if isinstance(v, dict) else '%s: %s' % (k, v)
                             for k, v in results.items())
            f.write('| %s | %s | %s | %s | %s | %s |\n' % (i, prop, 'yes' if caught else 'NO', cell.replace('|', '/'), summ.replace('|', '/'), needs.replace('|', '/')))
    return rows


if __name__ == '__main__':
    if len(sys.argv) >= 2 and sys.argv[1] == 'confirm':
        for d in sys.argv[2:]:
            print(d, json.dumps(confirm(d)))
    else:
        evaluate(sys.argv[2:] if len(sys.argv) > 2 else [])
