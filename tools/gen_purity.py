"""Static "validate first, mutate afterwards" discipline of the command bodies (part of the translator, called by gen_lean.py).

The model represents a regular command body as a pure function  items -> Except Err (reply, items'):  an error carries no
state, so "a body changes something and THEN raises" cannot even be written down in the model (DESIGN 12.2).  In the code
`_run_command` writes every CommandItem back also after a SimpleError, and in-place changes of stored containers are
immediate, so that assumption is a real obligation on the source.  This analysis establishes it for every path of every
body: a forward abstract interpretation over the AST of each method of FakeSocket with the one-bit state
"may already have changed something", which reports every `raise` (and every call that may raise a SimpleError: the
converters' decode(), `_encodeint`/`_encodefloat`, helpers that may raise) that can execute in the state `changed`.

changes:   assignment / del to  <x>.value, <x>.expireat, <x>.value[...], an alias of a stored container;  <x>.update(..),
           <x>.updated();  a mutating method (append, pop, add, remove, ... ) on something rooted at `.value` or an alias;
           stores to attributes of self / the server / a database;  calls to helpers that change something
loops are run twice (a change in one iteration, a raise in the next); `try` with a single statement: its handlers start
from the state before it (that statement either raised or completed); otherwise from the join.

Output: FR/Generated/Purity.lean  `sites : List (String × List String)` - per function the flagged sites ("kind@callee-or-message").
The Lean side (FR/Bridge/Purity.lean) requires the list of every command body to be empty apart from the reviewed exceptions."""
import ast, os


class Unsupported(Exception):
    pass


def lean_str(s):
    return '"' + s.replace('\\', '\\\\').replace('"', '\\"') + '"'


MUTATORS = {'append', 'extend', 'insert', 'pop', 'remove', 'clear', 'add', 'discard', 'update', 'sort', 'reverse', 'popitem', 'setdefault',
            'difference_update', 'intersection_update', 'symmetric_difference_update', '__setitem__', '__delitem__', 'swap', 'notify_watch'}
RAISING_CALLS = {'decode', '_encodeint', '_encodefloat'}


def rooted_at_value(e, aliases):
    """e is (a part of) a stored object: `<name>.value...`, an alias, or a subscript/attribute of one"""
    while True:
        if isinstance(e, ast.Name):
            return e.id in aliases
        if isinstance(e, ast.Attribute):
            if e.attr in ('value', '_value') and isinstance(e.value, ast.Name) and e.value.id != 'self':
                return True
            e = e.value
            continue
        if isinstance(e, ast.Subscript):
            e = e.value
            continue
        return False


def is_shared_self(e):
    """self._db / self._server / their attributes and items"""
    while True:
        if isinstance(e, ast.Attribute):
            if isinstance(e.value, ast.Name) and e.value.id == 'self' and e.attr in ('_db', '_server'):
                return True
            e = e.value
            continue
        if isinstance(e, (ast.Subscript, ast.Call)):
            e = e.value if isinstance(e, ast.Subscript) else e.func
            continue
        return False


class Analyser:
    def __init__(self, funcs):
        self.funcs = funcs
        self.summ = {n: {'raises': False, 'changes': False} for n in funcs}

    # ---- summaries to a fixed point
    def run(self):
        for _ in range(6):
            before = {k: dict(v) for k, v in self.summ.items()}
            self.sites = {}
            for n, f in self.funcs.items():
                self.cur, self.cur_sites, self.aliases, self.lazy = n, [], set(), {}
                self.collect_aliases(f)
                self.block(f.body, False)
                self.sites[n] = self.cur_sites
            if before == self.summ:
                break
        return self.sites

    def collect_aliases(self, f):
        # names bound (anywhere) from something rooted at .value: they denote the stored object (flow-insensitive, two rounds)
        for _ in range(2):
            for n in ast.walk(f):
                if isinstance(n, ast.Assign) and len(n.targets) == 1 and isinstance(n.targets[0], ast.Name):
                    v = n.value
                    if isinstance(v, (ast.Attribute, ast.Name, ast.Subscript)) and rooted_at_value(v, self.aliases):
                        self.aliases.add(n.targets[0].id)

    def flag(self, what, node):
        s = '%s' % what
        if s not in self.cur_sites:
            self.cur_sites.append(s)

    def note_raise(self, changed, what, node):
        self.summ[self.cur]['raises'] = True
        if changed:
            self.flag(what, node)

    def note_change(self):
        self.summ[self.cur]['changes'] = True

    # ---- expressions, in evaluation order (approximately: operands before the operation)
    def expr(self, e, changed):
        if e is None:
            return changed
        if isinstance(e, ast.Call):
            f = e.func
            if isinstance(f, ast.Attribute):
                changed = self.expr(f.value, changed)
            for a in e.args:
                changed = self.expr(a.value if isinstance(a, ast.Starred) else a, changed)
            for k in e.keywords:
                changed = self.expr(k.value, changed)
            if isinstance(f, ast.Attribute):
                recv = f.value
                if isinstance(recv, ast.Name) and recv.id == 'self' and f.attr in self.funcs:
                    sm = self.summ[f.attr]
                    if sm['raises']:
                        self.note_raise(changed, 'call:' + f.attr, e)
                    if sm['changes']:
                        self.note_change()
                        changed = True
                elif f.attr in RAISING_CALLS:
                    self.note_raise(changed, 'call:' + f.attr, e)
                elif f.attr in ('update', 'updated') and isinstance(recv, ast.Name) and recv.id != 'self' and not rooted_at_value(recv, self.aliases):
                    self.note_change()          # CommandItem.update / updated
                    changed = True
                elif f.attr in MUTATORS and (rooted_at_value(recv, self.aliases) or is_shared_self(recv)):
                    self.note_change()
                    changed = True
            elif isinstance(f, ast.Name) and f.id in ('SimpleError',):
                pass
            return changed
        lz = self.lazy_of(e)
        if lz is not None:
            r = self.lazy_step(lz, changed)
            return changed if r is None else r
        if isinstance(e, ast.IfExp):
            c = self.expr(e.test, changed)
            return self.expr(e.body, c) or self.expr(e.orelse, c)
        if isinstance(e, (ast.Lambda, ast.GeneratorExp)):
            # a lazily evaluated generator / lambda: its body runs later - at the point of use; treat as evaluated here and again at use is
            # not tracked: flag raising calls inside generators conservatively when something has been changed by then
            for ch in ast.iter_child_nodes(e):
                if isinstance(ch, ast.expr):
                    changed = self.expr(ch, changed)
                elif isinstance(ch, ast.comprehension):
                    changed = self.expr(ch.iter, changed)
                    for c in ch.ifs:
                        changed = self.expr(c, changed)
            return changed
        if isinstance(e, (ast.ListComp, ast.SetComp, ast.DictComp)):
            for g in e.generators:
                changed = self.expr(g.iter, changed)
            # element expression evaluated repeatedly
            for _ in range(2):
                for g in e.generators:
                    for c in g.ifs:
                        changed = self.expr(c, changed)
                if isinstance(e, ast.DictComp):
                    changed = self.expr(e.key, changed)
                    changed = self.expr(e.value, changed)
                else:
                    changed = self.expr(e.elt, changed)
            return changed
        for ch in ast.iter_child_nodes(e):
            if isinstance(ch, ast.expr):
                changed = self.expr(ch, changed)
        return changed

    def store(self, t, changed):
        if isinstance(t, (ast.Tuple, ast.List)):
            for x in t.elts:
                changed = self.store(x, changed)
            return changed
        if isinstance(t, ast.Attribute):
            if t.attr in ('value', 'expireat') and isinstance(t.value, ast.Name) and t.value.id != 'self':
                self.note_change()
                return True
            if (isinstance(t.value, ast.Name) and t.value.id == 'self') or is_shared_self(t) or rooted_at_value(t, self.aliases):
                self.note_change()
                return True
        if isinstance(t, ast.Subscript):
            if rooted_at_value(t, self.aliases) or is_shared_self(t):
                self.note_change()
                return True
        return changed

    # ---- statements: returns the state after normal completion (None = does not complete normally)
    def block(self, stmts, changed):
        for s in stmts:
            if changed is None:
                return None
            changed = self.stmt(s, changed)
        return changed

    @staticmethod
    def join(a, b):
        if a is None:
            return b
        if b is None:
            return a
        return a or b

    def stmt(self, s, changed):
        if isinstance(s, ast.Raise):
            what = 'raise'
            if s.exc is not None:
                changed = self.expr(s.exc, changed)
                try:
                    what = 'raise:' + ast.unparse(s.exc)[:60]
                except Exception:
                    pass
            self.note_raise(changed, what, s)
            return None
        if isinstance(s, ast.Return):
            self.expr(s.value, changed)
            return None
        if isinstance(s, ast.If):
            c = self.expr(s.test, changed)
            return self.join(self.block(s.body, c), self.block(s.orelse, c))
        if isinstance(s, (ast.For, ast.While)):
            lz = self.lazy_of(s.iter) if isinstance(s, ast.For) else None
            c = changed if lz else self.expr(s.iter if isinstance(s, ast.For) else s.test, changed)
            out = c
            for _ in range(2):
                if lz:
                    out = self.lazy_step(lz, out)
                    if out is None:
                        return None
                b = self.block(s.body, out)
                out = self.join(out, b)
                if isinstance(s, ast.While):
                    out = self.expr(s.test, out)
            return self.join(out, self.block(s.orelse, out))
        if isinstance(s, ast.Try):
            # an exception in statement k of the body: statements 1..k-1 completed, statement k did not (a simple statement either raises before
            # it changes anything or completes).  The handlers therefore start from the join of the states BEFORE every statement that can raise.
            start, cur = None, changed
            for st in s.body:
                if cur is None:
                    break
                if self.can_raise(st):
                    start = self.join(start, cur)
                if isinstance(st, (ast.For, ast.While, ast.If, ast.With, ast.Try)):
                    # compound statement: may have changed something before raising inside
                    nxt = self.stmt(st, cur)
                    start = self.join(start, self.join(cur, nxt) if nxt is not None else (True if self.changes_something(st) else cur))
                    cur = nxt
                else:
                    cur = self.stmt(st, cur)
            b = cur
            if start is None:
                start = changed
            outs = [self.block(h.body, start) for h in s.handlers]
            o = self.block(s.orelse, b) if b is not None else None
            res = o
            for x in outs:
                res = self.join(res, x)
            if s.finalbody:
                res2 = self.block(s.finalbody, res if res is not None else start)
                return res2 if res is not None else None
            return res
        if isinstance(s, ast.With):
            for i in s.items:
                changed = self.expr(i.context_expr, changed)
            return self.block(s.body, changed)
        if isinstance(s, ast.Assign) and isinstance(s.value, ast.GeneratorExp) and len(s.targets) == 1 and isinstance(s.targets[0], ast.Name):
            self.lazy[s.targets[0].id] = s.value
            for g in s.value.generators[:1]:
                changed = self.expr(g.iter, changed)       # only the outermost iterable is evaluated at once
            return changed
        if isinstance(s, ast.Assign):
            changed = self.expr(s.value, changed)
            for t in s.targets:
                changed = self.store(t, changed)
            return changed
        if isinstance(s, ast.AugAssign):
            changed = self.expr(s.value, changed)
            return self.store(s.target, changed)
        if isinstance(s, ast.AnnAssign):
            changed = self.expr(s.value, changed)
            return self.store(s.target, changed)
        if isinstance(s, ast.Delete):
            for t in s.targets:
                changed = self.store(t, changed)
            return changed
        if isinstance(s, ast.Expr):
            return self.expr(s.value, changed)
        if isinstance(s, ast.Assert):
            return self.expr(s.test, changed)
        if isinstance(s, (ast.FunctionDef, ast.AsyncFunctionDef)) and any(isinstance(n, (ast.Yield, ast.YieldFrom)) for n in ast.walk(s)):
            self.lazy[s.name] = s          # a generator: its body runs where it is consumed
            return changed
        if isinstance(s, (ast.FunctionDef, ast.AsyncFunctionDef)):
            # nested function: analysed where it is defined (closures of the bodies are predicates / sort keys applied at once)
            saved = self.aliases
            r = self.block(s.body, changed)
            self.aliases = saved
            return changed if r is None else self.join(changed, r)
        if isinstance(s, (ast.Pass, ast.Break, ast.Continue, ast.Import, ast.ImportFrom, ast.Global, ast.Nonlocal)):
            return changed
        raise Unsupported('statement %s in %s' % (type(s).__name__, self.cur))

    def lazy_of(self, e):
        if isinstance(e, ast.Name) and e.id in self.lazy:
            return e.id
        if isinstance(e, ast.Call) and isinstance(e.func, ast.Name) and e.func.id in self.lazy and isinstance(self.lazy[e.func.id], ast.FunctionDef):
            return e.func.id
        return None

    def lazy_step(self, name, changed):
        """one step of the lazily evaluated producer `name` in state `changed`"""
        node = self.lazy[name]
        if isinstance(node, ast.GeneratorExp):
            for g in node.generators:
                for c in g.ifs:
                    changed = self.expr(c, changed)
            return self.expr(node.elt, changed)
        r = self.block(node.body, changed)
        return changed if r is None else self.join(changed, r)

    @staticmethod
    def can_raise(st):
        """can this simple statement raise at all?  `<x>.updated()` / `<x>.update(v)` of a CommandItem and plain assignments of names/constants cannot"""
        for n in ast.walk(st):
            if isinstance(n, ast.Call):
                f = n.func
                if isinstance(f, ast.Attribute) and f.attr in ('updated', 'update') and isinstance(f.value, ast.Name):
                    continue
                return True
            if isinstance(n, (ast.Subscript, ast.BinOp, ast.Raise, ast.Assert, ast.Compare, ast.Attribute)):
                if isinstance(n, ast.Attribute) and isinstance(n.ctx, ast.Load) and isinstance(n.value, ast.Name):
                    continue
                if isinstance(n, ast.Compare):
                    continue
                return True
        return False

    def changes_something(self, st):
        for n in ast.walk(st):
            if isinstance(n, (ast.Assign, ast.AugAssign, ast.Delete)):
                for t in (n.targets if not isinstance(n, ast.AugAssign) else [n.target]):
                    if isinstance(t, (ast.Attribute, ast.Subscript)):
                        return True
            if isinstance(n, ast.Call) and isinstance(n.func, ast.Attribute) and (n.func.attr in MUTATORS or n.func.attr in ('update', 'updated') or n.func.attr in self.funcs):
                return True
        return False


def gen_purity(repo):
    tree = ast.parse(open(os.path.join(repo, 'fakeredis', '_fakesocket.py')).read())
    cls = [n for n in tree.body if isinstance(n, ast.ClassDef) and n.name == 'FakeSocket']
    if len(cls) != 1:
        raise Unsupported('class FakeSocket not found')
    funcs = {n.name: n for n in cls[0].body if isinstance(n, ast.FunctionDef)}

    def command_name(f):
        for d in f.decorator_list:
            if isinstance(d, ast.Call) and isinstance(d.func, ast.Name) and d.func.id == 'command':
                for k in d.keywords:
                    if k.arg == 'name' and isinstance(k.value, ast.Constant):
                        return k.value.value
                return f.name
        return None
    an = Analyser(funcs)
    sites = an.run()
    rows = []
    for n in sorted(funcs):
        cn = command_name(funcs[n])
        if cn is None:
            continue
        rows.append((cn, sites[n]))
    if len(rows) < 100:
        raise Unsupported('only %d command bodies found' % len(rows))
    rows.sort()
    out = ['/-! GENERATED by tools/gen_purity.py: per command body, the raises / raising calls that can execute after the body has already changed',
           'something (abstract interpretation of fakeredis/_fakesocket.py) — do not edit -/', 'namespace FR.Generated.Purity', '',
           'def sites : List (String × List String) := [']
    out.append(',\n'.join('  (%s, [%s])' % (lean_str(n), ', '.join(lean_str(x) for x in s)) for n, s in rows))
    out.append(']')
    out.append('end FR.Generated.Purity')
    return '\n'.join(out) + '\n'


if __name__ == '__main__':
    import sys
    txt = gen_purity(sys.argv[1] if len(sys.argv) > 1 else '/repo')
    for l in txt.split('\n'):
        if '[]' not in l:
            print(l)
