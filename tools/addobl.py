#!/venv/bin/python
"""tools/addobl.py <property> <Props file stem>: register every theorem of lean/FR/Props/<stem>.lean as an obligation of the property"""
import re, sys, os
HERE = os.path.dirname(os.path.dirname(os.path.abspath(__file__)))
prop, stem = sys.argv[1], sys.argv[2]
src = open(os.path.join(HERE, 'lean', 'FR', 'Props', stem + '.lean')).read()
ns = re.search(r'^namespace\s+(\S+)', src, re.M).group(1)
names = re.findall(r'^theorem\s+([^\s:({\[]+)', src, re.M)
line = "\nOBLIGATIONS[%r] += %r\n" % (prop, ['%s.%s' % (ns, n) for n in names])
p = os.path.join(HERE, 'harness', 'obligations.py')
s = open(p).read()
if ("'%s.%s'" % (ns, names[0])) in s:
    print('already registered'); sys.exit(0)
open(p, 'a').write(line)
print(prop, stem, len(names), 'theorems registered from namespace', ns)
