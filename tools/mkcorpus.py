#!/usr/bin/env python3
"""Builds corpus/<property>/<id>.json from the seeded changes: for each change the quick check is run on an isolated copy (a /tmp copy of /verif and a
scratch worktree of /repo with the patch applied, FR_REPO); if the replay it writes is a plain event history (no scheduler / asyncio / thread / client-level
finding) and that history (a) fails on the changed tree and (b) passes on the unchanged tree, it is kept as a regression history that every later run of the
check replays first.  Nothing here runs as part of a check; the corpus itself is committed."""
import json, os, shutil, subprocess, sys
VERIF = os.path.dirname(os.path.dirname(os.path.abspath(__file__)))
V, R = '/tmp/verif_corpus', '/tmp/repo_corpus'


def sh(cmd, **kw):
    p = subprocess.run(cmd, stdout=subprocess.PIPE, stderr=subprocess.STDOUT, **kw)
    return p.returncode, p.stdout.decode('utf-8', 'replace')


def main(ids):
    os.makedirs(V, exist_ok=True)
    sh(['rsync', '-a', '--delete', '--exclude', '.git', '--exclude', 'replays/C*', '--exclude', 'evidence', VERIF + '/', V + '/'])
    os.makedirs(V + '/replays', exist_ok=True); os.makedirs(V + '/evidence', exist_ok=True)
    if not os.path.isdir(R):
        sh(['git', '-C', '/repo', 'worktree', 'add', '--detach', R, 'HEAD'])
    head = subprocess.check_output(['git', '-C', '/repo', 'rev-parse', 'HEAD']).decode().strip()
    sh(['git', '-C', R, 'checkout', '-q', '--detach', head]); sh(['git', '-C', R, 'checkout', '-q', '--', '.'])
    base = os.path.join(VERIF, 'seeded')
    ids = ids or sorted(d for d in os.listdir(base) if os.path.isdir(os.path.join(base, d)))
    env = dict(os.environ, FR_REPO=R, VERIF_SEED='0')
    kept = 0
    for i in ids:
        meta = json.load(open(os.path.join(base, i, 'meta.json')))
        prop = meta['property']
        for f in os.listdir(V + '/replays'):
            if f.startswith(prop + '-'):
                os.remove(os.path.join(V, 'replays', f))
        rc, out = sh(['git', '-C', R, 'apply', os.path.join(base, i, 'patch.diff')])
        if rc != 0:
            print(i, 'patch does not apply'); continue
        try:
            rc, out = sh([V + '/check', prop, '--tier', 'quick'], env=env, timeout=900)
            rp = os.path.join(V, 'replays', '%s-quick-0-1.json' % prop)
            rec = json.load(open(rp)) if rc == 1 and os.path.exists(rp) else None
            ok = rec is not None and 'events' in rec and not (rec.get('sched') or rec.get('aio') or rec.get('kind') in ('threads', 'lockset', 'client', 'setup'))
            if ok:
                # (a) still fails on the changed tree when replayed alone
                rca, _ = sh([V + '/check', prop, '--replay', rp, '--no-build'], env=env, timeout=300)
                ok = rca == 1
        except subprocess.TimeoutExpired:
            ok, rec = False, None
        finally:
            sh(['git', '-C', R, 'checkout', '-q', '--', '.'])
        if ok:
            # (b) passes on the unchanged tree
            rcb, _ = sh([V + '/check', prop, '--replay', rp, '--no-build'], env=env, timeout=300)
            ok = rcb == 0
        if ok:
            d = os.path.join(VERIF, 'corpus', prop)
            os.makedirs(d, exist_ok=True)
            json.dump({'from': i, 'version': rec.get('version', 7), 'seed': rec.get('seed', 0), 'events': rec['events'],
                       'what': rec.get('what') or rec.get('clause'), 'summary': meta.get('summary', '')[:300]}, open(os.path.join(d, i + '.json'), 'w'), indent=0)
            kept += 1
        print(i, prop, 'kept' if ok else 'not a plain history / not reproducible', flush=True)
    print('kept', kept)
    sh(['git', '-C', '/repo', 'worktree', 'remove', '--force', R])
    shutil.rmtree(V, ignore_errors=True)


if __name__ == '__main__':
    main(sys.argv[1:])
